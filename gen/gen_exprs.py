#!/usr/bin/env python3
"""Expression translator: word-level expressions of the kernels of
/repo/src/operations.rs and /repo/src/decomposition.rs  ->  coq/Gen/Exprs.v

For every kernel listed in SPECS the in-word regime is located in the Rust source (a small
statement parser: let / if-else chains / for / assignments / macro and expression statements),
the right-hand sides are parsed by a real expression parser (tokenizer + precedence climbing
with Rust's precedences) and translated into Gallina over `N` with a small fixed vocabulary:

    a & b  -> N.land a b        a | b -> N.lor a b          a ^ b -> N.lxor a b
    !x     -> not64 x           x << s -> shl64 x s         x >> s -> N.shiftr x s
    1 << s -> N.shiftl 1 s      (shift of the literal 1: no bit can be lost below the width)
    a + b  -> (a + b)           a - b  -> (a - b)           (plain N arithmetic; overflow is the
                                                             business of the tie lemmas)
    x.wrapping_add(y) -> wrap64 (x + y)
    VAR_MASK[i] -> nthN VAR_MASK i        SWAP_INPUT_MASKS[i][j] -> nthN (nth i SWAP_INPUT_MASKS []) j
    num_vars_mask(n) -> num_vars_mask n   *t -> t     e as u64/usize -> e
    ==, !=, <, <=, >, >= -> =?, negb (=?), <?, <=?, ...     if c { a } else { b } -> if c then a else b
    core::cmp::max/min -> N.max/N.min (Nat.max/Nat.min on nat operands)   usize::BITS -> 64

Each Rust local becomes a Gallina `let`.  Anything outside this vocabulary, a missing function, a
missing branch, an ambiguous or missing statement, or a statement of a covered regime that no
definition accounts for makes the generator FAIL (non-zero exit, message naming function and
statement).  Nothing is skipped silently: the regimes that are deliberately not translated are listed
in SKIPPED with the reason.

Standard library only.  `main()` regenerates coq/Gen/Exprs.v, coq/Gen/Exprs2.v, coq/Gen/Exprs3.v and coq/Gen/Exprs4.v
(each written only when its content changes).

PART 2 (second half of this file, SPECS2 -> coq/Gen/Exprs2.v, tied by Proofs/ExprsTie2.v) extends the same mechanism
to src/sop/cube.rs, src/sop/ecube.rs, src/bdd.rs and src/canonization.rs with a translator that is typed by the
declared Rust types (u32 / u64 / usize / bool / Cube / Ecube); see the comment that opens part 2.

PART 3 (last third of this file, SPECS3 -> coq/Gen/Exprs3.v, tied by Proofs/ExprsTie3.v) goes back to
src/operations.rs and src/decomposition.rs with the machinery of part 2 and translates what part 1 leaves to the
hand-written model: the whole-word regimes (strides, loop guards, indices read and written, which word goes where),
the regime selectors, fill_symmetric word by word, table_size / hex_str_size / the text widths, the arithmetic of
fill_hex, the control flow of next_inplace; see the comment that opens part 3.

PART 4 (SPECS4 -> coq/Gen/Exprs4.v, tied by Proofs/ExprsTie4.v) translates the bodies of src/sop/sop.rs, src/sop/esop.rs,
src/sop/soes.rs (and the functions of cube.rs / ecube.rs that part 2 leaves) as whole functions: statement blocks are
compiled to expressions (fold_left for loops, record rebuilding for field updates, lists for vectors and iterators); see
the comment that opens part 4.
"""
import os
import re
import sys

HERE = os.path.dirname(os.path.abspath(__file__))
if HERE not in sys.path:
    sys.path.insert(0, HERE)
import gen as G  # noqa: E402  (read, strip_comments, cut_tests, fns, write_if_changed)

COQ = os.path.join(HERE, "..", "coq", "Gen")


class GenExprError(SystemExit):
    pass


def fail(msg):
    # SystemExit with a string argument: the message goes to stderr and the exit status is 1
    raise GenExprError("gen_exprs: ERROR: %s" % msg)


# ----------------------------------------------------------------------------------------------
# tokenizer

INT_SUFFIX = r"(?:u8|u16|u32|u64|u128|usize|i8|i16|i32|i64|i128|isize)"
TOKEN_RE = re.compile(r"""
  (?P<ws>\s+)
 |(?P<str>b?"(?:[^"\\]|\\.)*")
 |(?P<char>b?'(?:[^'\\]|\\.)')
 |(?P<int>0x[0-9a-fA-F_]+""" + INT_SUFFIX + r"""?|0b[01_]+""" + INT_SUFFIX + r"""?|[0-9][0-9_]*""" + INT_SUFFIX + r"""?)
 |(?P<id>[A-Za-z_][A-Za-z_0-9]*)
 |(?P<op><<=|>>=|\.\.=|<<|>>|<=|>=|==|!=|&&|\|\||\+=|-=|\*=|/=|%=|&=|\|=|\^=|->|=>|::|\.\.|[-+*/%&|^!=<>.,;:()\[\]{}?])
""", re.X)

ASSIGN_OPS = {"=", "+=", "-=", "*=", "/=", "%=", "&=", "|=", "^=", "<<=", ">>="}
OPEN = {"(": ")", "[": "]", "{": "}"}
CLOSE = {")", "]", "}"}


class Tok:
    __slots__ = ("kind", "text", "start", "end")

    def __init__(self, kind, text, start, end):
        self.kind, self.text, self.start, self.end = kind, text, start, end

    def __repr__(self):
        return self.text


def tokenize(src, where):
    toks = []
    pos = 0
    while pos < len(src):
        m = TOKEN_RE.match(src, pos)
        if not m:
            fail("%s: cannot tokenize at %r" % (where, src[pos:pos + 30]))
        if m.lastgroup != "ws":
            toks.append(Tok(m.lastgroup, m.group(), m.start(), m.end()))
        pos = m.end()
    return toks


def text_of(src, toks):
    """source text of a token range, whitespace collapsed"""
    if not toks:
        return ""
    return " ".join(src[toks[0].start:toks[-1].end].split())


def norm(toks):
    """canonical spelling of a token range (used to match conditions and left-hand sides)"""
    return " ".join(t.text for t in toks)


def norm_str(s, where):
    return norm(tokenize(s, where))


# ----------------------------------------------------------------------------------------------
# statements

class Stmt:
    def __init__(self, kind, toks, **kw):
        self.kind = kind          # let | assign | expr | if | for | return | macro
        self.toks = toks          # all tokens of the statement (for messages)
        self.__dict__.update(kw)
        self.covered = False


def skip_group(toks, i, where):
    """toks[i] is an opening bracket; index of the matching closing one"""
    depth = 0
    j = i
    while j < len(toks):
        t = toks[j].text
        if t in OPEN:
            depth += 1
        elif t in CLOSE:
            depth -= 1
            if depth == 0:
                return j
        j += 1
    fail("%s: unbalanced brackets" % where)


def find_at_depth0(toks, i, stop, where, brace_is_group=True):
    """first index j >= i with toks[j].text in stop at bracket depth 0, or len(toks)"""
    j = i
    while j < len(toks):
        t = toks[j].text
        if t in stop:
            return j
        if t in OPEN and (brace_is_group or t != "{"):
            j = skip_group(toks, j, where)
        elif t in CLOSE:
            fail("%s: stray %s" % (where, t))
        j += 1
    return len(toks)


# part 3 switches the parsing of `match` statements on (parts 1 and 2 keep failing on them)
ALLOW_MATCH = [False]


def parse_arms(toks, where):
    """arms of a `match`: [(pattern tokens, statements of the arm)]"""
    arms = []
    i, n = 0, len(toks)
    while i < n:
        a = find_at_depth0(toks, i, {"=>"}, where)
        if a >= n:
            fail("%s: match arm without `=>`: %s" % (where, norm(toks[i:i + 8])))
        pat = toks[i:a]
        if a + 1 < n and toks[a + 1].text == "{":
            e = skip_group(toks, a + 1, where)
            body = parse_block(toks[a + 2:e], where)
            i = e + 1
        else:
            e = find_at_depth0(toks, a + 1, {","}, where)
            body = parse_block(toks[a + 1:e], where)
            i = e
        if i < n and toks[i].text == ",":
            i += 1
        arms.append((pat, body))
    return arms


def parse_block(toks, where):
    """statements of a block body (tokens without the enclosing braces)"""
    out = []
    i = 0
    n = len(toks)
    while i < n:
        t = toks[i]
        if t.text == ";":
            i += 1
            continue
        if t.text == "let":
            j = find_at_depth0(toks, i, {";"}, where)
            if j >= n:
                fail("%s: `let` without `;`" % where)
            body = toks[i + 1:j]
            eq = find_at_depth0(body, 0, {"="}, where)
            pat = body[:eq]
            rhs = body[eq + 1:] if eq < len(body) else None
            if pat and pat[0].text == "mut":
                pat = pat[1:]
            colon = find_at_depth0(pat, 0, {":"}, where)
            ann = pat[colon + 1:]
            pat = pat[:colon]
            name = pat[0].text if len(pat) == 1 and pat[0].kind == "id" else None
            out.append(Stmt("let", toks[i:j + 1], name=name, rhs=rhs, ann="".join(t.text for t in ann)))
            i = j + 1
        elif t.text == "if":
            start = i
            branches = []
            while True:
                # toks[i] == 'if'
                b = find_at_depth0(toks, i + 1, {"{"}, where, brace_is_group=False)
                if b >= n:
                    fail("%s: `if` without block" % where)
                e = skip_group(toks, b, where)
                branches.append((toks[i + 1:b], parse_block(toks[b + 1:e], where)))
                i = e + 1
                if i < n and toks[i].text == "else":
                    if i + 1 < n and toks[i + 1].text == "if":
                        i += 1
                        continue
                    if i + 1 < n and toks[i + 1].text == "{":
                        e2 = skip_group(toks, i + 1, where)
                        branches.append((None, parse_block(toks[i + 2:e2], where)))
                        i = e2 + 1
                    else:
                        fail("%s: malformed `else`" % where)
                break
            out.append(Stmt("if", toks[start:i], branches=branches))
        elif t.text in ("for", "while", "loop"):
            b = find_at_depth0(toks, i + 1, {"{"}, where, brace_is_group=False)
            if b >= n:
                fail("%s: `%s` without block" % (where, t.text))
            e = skip_group(toks, b, where)
            out.append(Stmt("for", toks[i:e + 1], head=toks[i + 1:b], body=parse_block(toks[b + 1:e], where)))
            i = e + 1
        elif t.text == "match":
            if not ALLOW_MATCH[0]:
                fail("%s: `match` is outside the translated fragment: %s" % (where, norm(toks[i:i + 12])))
            # part 3: `match e { pat => body, .. }` is kept as an if-like statement whose "conditions" are the patterns
            b = find_at_depth0(toks, i + 1, {"{"}, where, brace_is_group=False)
            if b >= n:
                fail("%s: `match` without block" % where)
            e = skip_group(toks, b, where)
            out.append(Stmt("if", toks[i:e + 1], branches=parse_arms(toks[b + 1:e], where), is_match=True,
                            scrutinee=toks[i + 1:b]))
            i = e + 1
        elif t.text == "return":
            j = find_at_depth0(toks, i, {";"}, where)
            out.append(Stmt("return", toks[i:j + 1], rhs=toks[i + 1:j]))
            i = j + 1
        elif t.kind == "id" and i + 2 < n and toks[i + 1].text == "!" and toks[i + 2].text in OPEN:
            e = skip_group(toks, i + 2, where)
            j = e + 1
            if j < n and toks[j].text == ";":
                j += 1
            out.append(Stmt("macro", toks[i:j], name=t.text, args=toks[i + 3:e]))
            i = j
        else:
            j = find_at_depth0(toks, i, {";"}, where)
            body = toks[i:j]
            a = find_at_depth0(body, 0, ASSIGN_OPS, where)
            if a < len(body):
                out.append(Stmt("assign", toks[i:j + 1], lhs=body[:a], op=body[a].text, rhs=body[a + 1:]))
            else:
                out.append(Stmt("expr", toks[i:min(j + 1, n)], expr=body, tail=(j >= n)))
            i = j + 1
    return out


# ----------------------------------------------------------------------------------------------
# expressions: precedence climbing.  AST = nested tuples (parentheses leave no node)
#   ('int', value, hex?)  ('path', 'a::b')  ('un', op, e)  ('bin', op, l, r)  ('cast', e, ty)
#   ('idx', base, i)  ('call', f, (args))  ('mcall', recv, name, (args))  ('if', c, t, e)
#   ('closure', (params), body, (declared parameter types or ''))   body may be ('block', [Stmt..])
#   ('field', e, name)  ('struct', Name, ((field, e)..))  ('range', lo or None, hi or None, inclusive?)
#   ('let', name, annotation, rhs, body)  (built from statement blocks, never by the expression parser)

BIN_PREC = {
    "*": 10, "/": 10, "%": 10,
    "+": 9, "-": 9,
    "<<": 8, ">>": 8,
    "&": 7,
    "^": 6,
    "|": 5,
    "==": 4, "!=": 4, "<": 4, ">": 4, "<=": 4, ">=": 4,
    "&&": 3,
    "||": 2,
}
AS_PREC = 11
RANGE_PREC = 1
# struct names whose literals `Name { field: e, .. }` are parsed (filled by part 2)
STRUCT_NAMES = set()
COMPARISONS = {"==", "!=", "<", ">", "<=", ">="}
INT_TYPES = {"u8", "u16", "u32", "u64", "u128", "usize", "i8", "i16", "i32", "i64", "i128", "isize"}


def parse_int_token(text):
    """('int', value, written in hex/binary?, type suffix or '')"""
    raw = text.replace("_", "")
    m = re.search(INT_SUFFIX + "$", raw)
    suffix = m.group() if m else ""
    if suffix:
        raw = raw[:-len(suffix)]
    if raw.startswith("0x"):
        return ("int", int(raw, 16), True, suffix)
    if raw.startswith("0b"):
        return ("int", int(raw, 2), True, suffix)
    return ("int", int(raw), False, suffix)


class ExprParser:
    def __init__(self, toks, where):
        self.toks = toks
        self.i = 0
        self.where = where

    def peek(self):
        return self.toks[self.i].text if self.i < len(self.toks) else None

    def next(self):
        if self.i >= len(self.toks):
            self.err("unexpected end of expression")
        t = self.toks[self.i]
        self.i += 1
        return t

    def expect(self, text):
        t = self.next()
        if t.text != text:
            self.err("expected `%s`, found `%s`" % (text, t.text))

    def err(self, msg):
        fail("%s: cannot parse expression `%s`: %s" % (self.where, norm(self.toks), msg))

    def parse_all(self):
        e = self.expr(0)
        if self.i != len(self.toks):
            self.err("trailing tokens from `%s`" % self.peek())
        return e

    def expr(self, min_prec):
        if self.peek() in ("..", "..=") and min_prec <= RANGE_PREC:
            incl = self.next().text == "..="
            hi = None if self.peek() in (None, ")", "]", ",", "}") else self.expr(RANGE_PREC + 1)
            return ("range", None, hi, incl)
        lhs = self.unary()
        while True:
            op = self.peek()
            if op in ("..", "..=") and min_prec <= RANGE_PREC:
                self.next()
                hi = None if self.peek() in (None, ")", "]", ",", "}") else self.expr(RANGE_PREC + 1)
                return ("range", lhs, hi, op == "..=")
            if op == "as" and AS_PREC >= min_prec:
                self.next()
                lhs = ("cast", lhs, self.type_())
                continue
            prec = BIN_PREC.get(op)
            if prec is None or prec < min_prec:
                return lhs
            self.next()
            rhs = self.expr(prec + 1)
            if op in COMPARISONS and self.peek() in COMPARISONS:
                self.err("chained comparison")
            lhs = ("bin", op, lhs, rhs)

    def type_(self):
        """a type, returned as its text without spaces: u32, &u64, &mut [u8], Vec<u64>, (&u64, &u64), a::b"""
        t = self.next()
        if t.text == "&":
            if self.peek() == "mut":
                self.next()
                return "&mut " + self.type_()
            return "&" + self.type_()
        if t.text in ("(", "["):
            close = OPEN[t.text]
            parts = []
            while self.peek() != close:
                parts.append(self.type_())
                if self.peek() in (",", ";"):
                    sep = self.next().text
                    if sep == ";":
                        parts[-1] += ";" + self.next().text
            self.expect(close)
            return t.text + ",".join(parts) + close
        if t.kind != "id":
            self.err("type expected")
        name = t.text
        while self.peek() == "::":
            self.next()
            name += "::" + self.next().text
        if self.peek() == "<":
            self.next()
            parts = []
            while self.peek() not in (">", ">>"):
                parts.append(self.type_())
                if self.peek() == ",":
                    self.next()
            if self.peek() == ">>":
                self.err("nested generic types are outside the fragment")
            self.expect(">")
            name += "<" + ",".join(parts) + ">"
        return name

    def unary(self):
        op = self.peek()
        if op in ("!", "-", "*", "&"):
            self.next()
            if op == "&" and self.peek() == "mut":
                self.next()
            return ("un", op, self.unary())
        if op == "move" and self.i + 1 < len(self.toks) and self.toks[self.i + 1].text == "|":
            self.next()     # `move |x| ..`: captures by value, the same function
            op = "|"
        if op == "|":
            self.next()
            params = []
            types = []
            while self.peek() != "|":
                t = self.next()
                if t.text == "(":
                    # tuple pattern (part 4): the parameter is named "(a,b)"
                    names = []
                    while self.peek() != ")":
                        n = self.next()
                        if n.kind != "id":
                            self.err("name expected in a tuple pattern")
                        names.append(n.text)
                        if self.peek() == ",":
                            self.next()
                    self.next()
                    params.append("(" + ",".join(names) + ")")
                    types.append("")
                    if self.peek() == ",":
                        self.next()
                    continue
                if t.kind != "id":
                    self.err("closure parameter expected")
                params.append(t.text)
                types.append("")
                if self.peek() == ":":
                    self.next()
                    types[-1] = self.type_()
                if self.peek() == ",":
                    self.next()
            self.expect("|")
            if self.peek() == "{":
                e = skip_group(self.toks, self.i, self.where)
                inner = self.toks[self.i + 1:e]
                if inner and (inner[0].text in ("let", "if", "return", "for") or
                              find_at_depth0(inner, 0, {";"}, self.where) < len(inner)):
                    self.i = e + 1
                    return ("closure", tuple(params), ("block", parse_block(inner, self.where)), tuple(types))
            return ("closure", tuple(params), self.expr(0), tuple(types))
        return self.postfix(self.primary())

    def args(self):
        out = []
        while self.peek() != ")":
            out.append(self.expr(0))
            if self.peek() == ",":
                self.next()
            elif self.peek() != ")":
                self.err("`,` or `)` expected in argument list")
        self.expect(")")
        return tuple(out)

    def postfix(self, e):
        while True:
            op = self.peek()
            if op == "(":
                self.next()
                e = ("call", e, self.args())
            elif op == "[":
                self.next()
                i = self.expr(0)
                self.expect("]")
                e = ("idx", e, i)
            elif op == ".":
                self.next()
                name = self.next()
                if name.kind == "int" and re.fullmatch(r"[0-9]+", name.text):
                    e = ("field", e, name.text)
                    continue
                if name.kind != "id":
                    self.err("method or field name expected after `.`")
                if self.peek() == "::":
                    # turbofish `.collect::<Vec<_>>()`: the type arguments do not reach the translation
                    self.next()
                    if self.peek() != "<":
                        self.err("`<` expected after `::` in a method call")
                    depth = 0
                    while True:
                        t = self.next().text
                        depth += {"<": 1, "<<": 2, ">": -1, ">>": -2}.get(t, 0)
                        if depth <= 0:
                            break
                if self.peek() != "(":
                    e = ("field", e, name.text)
                    continue
                self.next()
                e = ("mcall", e, name.text, self.args())
            else:
                return e

    def block_expr(self):
        self.expect("{")
        e = self.expr(0)
        if self.peek() != "}":
            self.err("only single-expression blocks are supported")
        self.next()
        return e

    def primary(self):
        t = self.next()
        if t.kind == "int":
            return parse_int_token(t.text)
        if t.kind in ("str", "char"):
            return (t.kind, t.text)
        if t.text == "(" and self.peek() == ")":
            self.next()
            return ("tuple",)
        if t.text == "(":
            e = self.expr(0)
            if self.peek() == ",":
                # tuple (part 4): ('tupleexpr', elements)
                elems = [e]
                while self.peek() == ",":
                    self.next()
                    if self.peek() == ")":
                        break
                    elems.append(self.expr(0))
                self.expect(")")
                return ("tupleexpr", tuple(elems))
            self.expect(")")
            return e
        if t.text == "[":
            # array literal (part 4), read as a vector literal
            elems = []
            while self.peek() != "]":
                elems.append(self.expr(0))
                if self.peek() == ",":
                    self.next()
                elif self.peek() != "]":
                    self.err("`,` or `]` expected in an array literal")
            self.expect("]")
            return ("vecmac", tuple(elems))
        if t.text == "if":
            c = self.expr(0)
            a = self.block_expr()
            if self.peek() != "else":
                self.err("`if` expression without `else`")
            self.next()
            if self.peek() == "if":
                b = self.unary_if()
            else:
                b = self.block_expr()
            return ("if", c, a, b)
        if t.text == "{":
            self.i -= 1
            return self.block_expr()
        if t.kind == "id":
            name = t.text
            while self.peek() == "::":
                self.next()
                name += "::" + self.next().text
            if self.peek() == "!" and self.i + 1 < len(self.toks) and self.toks[self.i + 1].text in OPEN:
                # macro call in expression position (part 4): ('vecmac', elements) for vec![..], ('macro', name) otherwise
                self.next()
                e = skip_group(self.toks, self.i, self.where)
                inner = self.toks[self.i + 1:e]
                self.i = e + 1
                if name == "vec":
                    elems, i = [], 0
                    while i < len(inner):
                        j = find_at_depth0(inner, i, {",", ";"}, self.where)
                        if j < len(inner) and inner[j].text == ";":
                            self.err("`vec![e; n]` is outside the translated fragment")
                        elems.append(parse_expr(inner[i:j], self.where))
                        i = j + 1
                    return ("vecmac", tuple(elems))
                return ("macro", name, norm(inner))
            if name in STRUCT_NAMES and self.peek() == "{":
                self.next()
                fields = []
                while self.peek() != "}":
                    f = self.next()
                    if f.kind != "id":
                        self.err("field name expected in `%s { .. }`" % name)
                    if self.peek() == ":":
                        self.next()
                        fields.append((f.text, self.expr(0)))
                    else:
                        fields.append((f.text, ("path", f.text)))
                    if self.peek() == ",":
                        self.next()
                    elif self.peek() != "}":
                        self.err("`,` or `}` expected in `%s { .. }`" % name)
                self.expect("}")
                return ("struct", name, tuple(fields))
            return ("path", name)
        self.err("unexpected token `%s`" % t.text)

    def unary_if(self):
        return self.primary()


def parse_expr(toks, where):
    if not toks:
        fail("%s: empty expression" % where)
    return ExprParser(toks, where).parse_all()


# ----------------------------------------------------------------------------------------------
# translation to Gallina.  Types: 'N' (u64 word or usize as N), 'nat', 'bool', 'lit' (integer
# literal, takes the type of its context), 'fun2' (N -> N -> N), 'list' (list N)

COQ_KEYWORDS = {"as", "at", "cofix", "else", "end", "exists", "exists2", "fix", "for", "forall", "fun", "if", "IF",
                "in", "let", "match", "mod", "Prop", "return", "Set", "then", "Type", "using", "where", "with"}
TABLES_1D = {"VAR_MASK", "NUM_VARS_MASK", "COUNT_MASKS"}
TABLES_2D = {"SWAP_INPUT_MASKS"}
KNOWN_GLOBALS = TABLES_1D | TABLES_2D | {"num_vars_mask", "true", "false"}
PATH_CONSTS = {"usize::BITS": 64, "u64::BITS": 64}
MINMAX = {"std::cmp::min": "min", "core::cmp::min": "min", "cmp::min": "min",
          "std::cmp::max": "max", "core::cmp::max": "max", "cmp::max": "max"}
COQ_TYPE = {"N": "N", "nat": "nat", "bool": "bool", "fun2": "N -> N -> N", "list": "list N"}


def cid(name):
    return name + "_" if name in COQ_KEYWORDS else name


class Translator:
    def __init__(self, where, env, abstractions):
        self.where = where
        self.env = dict(env)                # rust name -> type
        self.abstractions = abstractions    # list of (ast, param name)

    def err(self, msg):
        fail("%s: cannot translate: %s" % (self.where, msg))

    # -- helpers
    @staticmethod
    def paren(text):
        return text if re.fullmatch(r"[A-Za-z_0-9.%']+", text) or (text.startswith("(") and _balanced_outer(text)) \
            else "(" + text + ")"

    def lit(self, e, want):
        v, hexa = e[1], e[2]
        if want == "nat":
            if v > 1000:
                self.err("literal %d in a nat context" % v)
            return "%d%%nat" % v
        return ("0x%x" % v) if hexa and v > 9 else str(v)

    def coerce(self, e, want):
        """translate e and convert it to type want ('N', 'nat' or 'bool')"""
        if e[0] == "int" and self.abstracted(e) is None:
            if want == "bool":
                self.err("integer literal where a bool is expected")
            return self.lit(e, want)
        text, ty = self.tr(e)
        if ty == want:
            return text
        if ty == "lit":
            self.err("internal: literal type leaked from `%s`" % text)
        if ty == "nat" and want == "N":
            return "N.of_nat " + self.paren(text)
        if ty == "N" and want == "nat":
            return "N.to_nat " + self.paren(text)
        self.err("type mismatch: `%s` has type %s where %s is expected" % (text, ty, want))

    def abstracted(self, e):
        for ast, name in self.abstractions:
            if ast == e:
                return name
        return None

    def ty_of(self, e):
        """type without emitting (used to choose between the nat and the N reading of an operator)"""
        if e[0] == "int" and self.abstracted(e) is None:
            return "lit"
        return self.tr(e)[1]

    # -- main
    def tr(self, e):
        a = self.abstracted(e)
        if a is not None:
            if a not in self.env:
                self.err("abstraction parameter %s is not declared" % a)
            return cid(a), self.env[a]
        k = e[0]
        if k == "int":
            return self.lit(e, "N"), "N"
        if k == "path":
            name = e[1]
            if name in PATH_CONSTS:
                return str(PATH_CONSTS[name]), "N"
            if name in ("true", "false"):
                return name, "bool"
            if "::" in name:
                self.err("unknown path `%s`" % name)
            if name not in self.env:
                self.err("unknown identifier `%s`" % name)
            return cid(name), self.env[name]
        if k == "un":
            op, x = e[1], e[2]
            if op in ("*", "&"):
                return self.tr(x)
            if op == "!":
                if self.ty_of(x) == "bool":
                    return "negb " + self.paren(self.coerce(x, "bool")), "bool"
                return "not64 " + self.paren(self.coerce(x, "N")), "N"
            self.err("unary `%s` is outside the vocabulary" % op)
        if k == "cast":
            if e[2] not in INT_TYPES:
                self.err("cast to `%s`" % e[2])
            if e[1][0] == "int":
                return self.lit(e[1], "N"), "N"
            return self.tr(e[1])
        if k == "bin":
            return self.tr_bin(e)
        if k == "idx":
            return self.tr_idx(e)
        if k == "call":
            return self.tr_call(e)
        if k == "mcall":
            recv, name, args = e[1], e[2], e[3]
            if name == "wrapping_add" and len(args) == 1:
                return "wrap64 (%s + %s)" % (self.paren(self.coerce(recv, "N")), self.paren(self.coerce(args[0], "N"))), "N"
            self.err("method `%s` is outside the vocabulary" % name)
        if k == "if":
            c = self.coerce(e[1], "bool")
            ta, tb = self.ty_of(e[2]), self.ty_of(e[3])
            want = "bool" if "bool" in (ta, tb) else ("nat" if {ta, tb} <= {"nat", "lit"} and "nat" in (ta, tb) else "N")
            return "if %s then %s else %s" % (c, self.coerce(e[2], want), self.coerce(e[3], want)), want
        if k == "closure":
            sub = Translator(self.where, self.env, self.abstractions)
            binders = []
            for p in e[1]:
                if p != "_":
                    sub.env[p] = "N"
                binders.append("(%s : N)" % cid(p))
            body, ty = sub.tr(e[2])
            return "fun %s => %s" % (" ".join(binders), body), "fun%d" % len(e[1])
        self.err("node %r" % (k,))

    def tr_bin(self, e):
        op, l, r = e[1], e[2], e[3]
        tl, tr_ = self.ty_of(l), self.ty_of(r)
        both_nat = {tl, tr_} <= {"nat", "lit"} and "nat" in (tl, tr_)
        if op in ("&", "|", "^"):
            if tl == "bool" or tr_ == "bool":
                f = {"&": "andb", "|": "orb", "^": "xorb"}[op]
                if op == "&":
                    return "(%s && %s)" % (self.paren(self.coerce(l, "bool")), self.paren(self.coerce(r, "bool"))), "bool"
                if op == "|":
                    return "(%s || %s)" % (self.paren(self.coerce(l, "bool")), self.paren(self.coerce(r, "bool"))), "bool"
                return "%s %s %s" % (f, self.paren(self.coerce(l, "bool")), self.paren(self.coerce(r, "bool"))), "bool"
            f = {"&": "N.land", "|": "N.lor", "^": "N.lxor"}[op]
            return "%s %s %s" % (f, self.paren(self.coerce(l, "N")), self.paren(self.coerce(r, "N"))), "N"
        if op == "<<":
            if l[0] == "int" and self.abstracted(l) is None:
                if l[1] != 1:
                    self.err("left shift of the literal %d (only `1 << s` is read as a non-wrapping shift)" % l[1])
                return "N.shiftl 1 %s" % self.paren(self.coerce(r, "N")), "N"
            return "shl64 %s %s" % (self.paren(self.coerce(l, "N")), self.paren(self.coerce(r, "N"))), "N"
        if op == ">>":
            return "N.shiftr %s %s" % (self.paren(self.coerce(l, "N")), self.paren(self.coerce(r, "N"))), "N"
        if op in ("+", "-", "*"):
            if both_nat:
                return "(%s %s %s)%%nat" % (self.paren(self.coerce(l, "nat")), op, self.paren(self.coerce(r, "nat"))), "nat"
            return "(%s %s %s)" % (self.paren(self.coerce(l, "N")), op, self.paren(self.coerce(r, "N"))), "N"
        if op in COMPARISONS:
            if tl == "bool" or tr_ == "bool":
                self.err("comparison of booleans")
            if both_nat:
                a, b = self.paren(self.coerce(l, "nat")), self.paren(self.coerce(r, "nat"))
                t = {"==": "Nat.eqb %s %s" % (a, b), "!=": "negb (Nat.eqb %s %s)" % (a, b),
                     "<": "Nat.ltb %s %s" % (a, b), "<=": "Nat.leb %s %s" % (a, b),
                     ">": "Nat.ltb %s %s" % (b, a), ">=": "Nat.leb %s %s" % (b, a)}[op]
                return t, "bool"
            a, b = self.paren(self.coerce(l, "N")), self.paren(self.coerce(r, "N"))
            t = {"==": "(%s =? %s)" % (a, b), "!=": "negb (%s =? %s)" % (a, b),
                 "<": "(%s <? %s)" % (a, b), "<=": "(%s <=? %s)" % (a, b),
                 ">": "(%s <? %s)" % (b, a), ">=": "(%s <=? %s)" % (b, a)}[op]
            return t, "bool"
        if op in ("&&", "||"):
            return "(%s %s %s)" % (self.paren(self.coerce(l, "bool")), op, self.paren(self.coerce(r, "bool"))), "bool"
        self.err("binary `%s` is outside the vocabulary" % op)

    def tr_idx(self, e):
        base, i = e[1], e[2]
        if base[0] == "path" and base[1] in TABLES_1D:
            return "nthN %s %s" % (base[1], self.paren(self.coerce(i, "nat"))), "N"
        if base[0] == "idx" and base[1][0] == "path" and base[1][1] in TABLES_2D:
            return "nthN (nth %s %s []) %s" % (self.paren(self.coerce(base[2], "nat")), base[1][1],
                                               self.paren(self.coerce(i, "nat"))), "N"
        if base[0] == "path" and self.env.get(base[1]) == "list":
            return "nthN %s %s" % (cid(base[1]), self.paren(self.coerce(i, "nat"))), "N"
        self.err("indexing of `%s`" % (base[1] if base[0] == "path" else base[0]))

    def tr_call(self, e):
        f, args = e[1], e[2]
        if f[0] != "path":
            self.err("call of a computed function")
        name = f[1]
        if name == "num_vars_mask" and len(args) == 1:
            return "num_vars_mask %s" % self.paren(self.coerce(args[0], "nat")), "N"
        if name in MINMAX and len(args) == 2:
            ta, tb = self.ty_of(args[0]), self.ty_of(args[1])
            if {ta, tb} <= {"nat", "lit"} and "nat" in (ta, tb):
                return "Nat.%s %s %s" % (MINMAX[name], self.paren(self.coerce(args[0], "nat")),
                                         self.paren(self.coerce(args[1], "nat"))), "nat"
            return "N.%s %s %s" % (MINMAX[name], self.paren(self.coerce(args[0], "N")),
                                   self.paren(self.coerce(args[1], "N"))), "N"
        if self.env.get(name) == "fun2" and len(args) == 2:
            return "%s %s %s" % (cid(name), self.paren(self.coerce(args[0], "N")), self.paren(self.coerce(args[1], "N"))), "N"
        self.err("call of `%s` is outside the vocabulary" % name)


def _balanced_outer(text):
    """text starts with '(' : does that parenthesis close at the very end?"""
    depth = 0
    for i, c in enumerate(text):
        if c == "(":
            depth += 1
        elif c == ")":
            depth -= 1
            if depth == 0:
                return i == len(text) - 1
    return False


def free_vars(e, abstractions, bound=frozenset()):
    """names (paths without ::) occurring free in e, abstracted sub-expressions counted as their parameter"""
    for ast, name in abstractions:
        if ast == e:
            return {name}
    k = e[0]
    if k == "int":
        return set()
    if k == "path":
        return set() if ("::" in e[1] or e[1] in bound) else {e[1]}
    if k == "un":
        return free_vars(e[2], abstractions, bound)
    if k == "cast":
        return free_vars(e[1], abstractions, bound)
    if k == "bin":
        return free_vars(e[2], abstractions, bound) | free_vars(e[3], abstractions, bound)
    if k == "idx":
        return free_vars(e[1], abstractions, bound) | free_vars(e[2], abstractions, bound)
    if k == "call":
        s = free_vars(e[1], abstractions, bound)
        for a in e[2]:
            s |= free_vars(a, abstractions, bound)
        return s
    if k == "mcall":
        s = free_vars(e[1], abstractions, bound)
        for a in e[3]:
            s |= free_vars(a, abstractions, bound)
        return s
    if k == "if":
        return free_vars(e[1], abstractions, bound) | free_vars(e[2], abstractions, bound) | free_vars(e[3], abstractions, bound)
    if k == "closure":
        return free_vars(e[2], abstractions, bound | set(e[1]))
    fail("internal: free_vars of %r" % (k,))


def subexprs(e):
    yield e
    k = e[0]
    kids = {"un": [2], "cast": [1], "bin": [2, 3], "idx": [1, 2], "if": [1, 2, 3], "closure": [2]}.get(k, [])
    for i in kids:
        yield from subexprs(e[i])
    if k == "call":
        yield from subexprs(e[1])
        for a in e[2]:
            yield from subexprs(a)
    if k == "mcall":
        yield from subexprs(e[1])
        for a in e[3]:
            yield from subexprs(a)


# ----------------------------------------------------------------------------------------------
# what to translate
#
# A spec: name of the Gallina definition, file, function, path (the conditions of the if / else-if branches to
# enter, "else" for a final else; `for` bodies are entered implicitly), target, parameters (ordered, with
# types; a parameter that has the name of a Rust local overrides that local: the definition is abstracted
# over it), abstractions (Rust sub-expression -> parameter).
# Targets:  assign:<lhs>      the unique assignment (=, &=, |=, ^=) to that place in the regime
#           let:<name>        the unique `let <name> = ..` of the regime (or of an enclosing block)
#           tail              the value expression that ends the block
#           callarg:<f>:<k>   argument k of the unique call of f in the regime
#           index:<v>         the index expression of the unique `v[..]` place of the regime

OPS = "src/operations.rs"
DEC = "src/decomposition.rs"


def S(name, file, fn, path, target, params, abstractions=None):
    return {"name": name, "file": file, "fn": fn, "path": tuple(path), "target": target, "params": params,
            "abs": abstractions or {}}


SPECS = [
    S("gx_num_vars_mask", OPS, "num_vars_mask", [], "tail", [("num_vars", "nat")]),
    S("gx_fill_nth_var_word", OPS, "fill_nth_var", ["ind <= 5"], "assign:*t", [("num_vars", "nat"), ("ind", "N")]),
    S("gx_fill_nth_var_high", OPS, "fill_nth_var", ["else"], "assign:*t", [("ind", "N"), ("i", "nat")]),
    S("gx_equals_count_values", OPS, "fill_equals", [], "let:count_values", [("k", "N")]),
    S("gx_threshold_count_values", OPS, "fill_threshold", ["else"], "callarg:fill_symmetric:2", [("k", "N")]),
    S("gx_get_bit_index", OPS, "get_bit", [], "index:table", [("ind", "N")]),
    S("gx_get_bit_test", OPS, "get_bit", [], "tail", [("ind", "N"), ("w", "N")], {"table[ind >> 6]": "w"}),
    S("gx_set_bit_index", OPS, "set_bit", [], "index:table", [("ind", "N")]),
    S("gx_set_bit_word", OPS, "set_bit", [], "assign:table[ind >> 6]", [("ind", "N"), ("w", "N")],
      {"table[ind >> 6]": "w"}),
    S("gx_unset_bit_index", OPS, "unset_bit", [], "index:table", [("ind", "N")]),
    S("gx_unset_bit_word", OPS, "unset_bit", [], "assign:table[ind >> 6]", [("ind", "N"), ("w", "N")],
      {"table[ind >> 6]": "w"}),
    S("gx_not_word", OPS, "not_inplace", [], "assign:*t", [("num_vars", "nat"), ("t", "N")]),
    S("gx_and_word", OPS, "and_inplace", [], "assign:*t1", [("t1", "N"), ("t2", "N")]),
    S("gx_or_word", OPS, "or_inplace", [], "assign:*t1", [("t1", "N"), ("t2", "N")]),
    S("gx_xor_word", OPS, "xor_inplace", [], "assign:*t1", [("t1", "N"), ("t2", "N")]),
    S("gx_swap_max", OPS, "swap_inplace", [], "let:i", [("ind1", "N"), ("ind2", "N")]),
    S("gx_swap_min", OPS, "swap_inplace", [], "let:j", [("ind1", "N"), ("ind2", "N")]),
    S("gx_swap_word_low", OPS, "swap_inplace", ["i <= 5"], "assign:*t", [("i", "nat"), ("j", "nat"), ("t", "N")]),
    S("gx_swap_cross_t00", OPS, "swap_inplace", ["j <= 5", "k & mi == 0"], "let:t00", [("j", "nat"), ("t0", "N")]),
    S("gx_swap_cross_t01", OPS, "swap_inplace", ["j <= 5", "k & mi == 0"], "let:t01", [("j", "nat"), ("t0", "N")]),
    S("gx_swap_cross_t10", OPS, "swap_inplace", ["j <= 5", "k & mi == 0"], "let:t10", [("j", "nat"), ("t1", "N")]),
    S("gx_swap_cross_t11", OPS, "swap_inplace", ["j <= 5", "k & mi == 0"], "let:t11", [("j", "nat"), ("t1", "N")]),
    S("gx_swap_cross_lo", OPS, "swap_inplace", ["j <= 5", "k & mi == 0"], "assign:table[k]",
      [("j", "nat"), ("t0", "N"), ("t1", "N")]),
    S("gx_swap_cross_hi", OPS, "swap_inplace", ["j <= 5", "k & mi == 0"], "assign:table[k + mi]",
      [("j", "nat"), ("t0", "N"), ("t1", "N")]),
    S("gx_flip_word", OPS, "flip_inplace", ["ind <= 5"], "assign:*t", [("ind", "nat"), ("t", "N")]),
    S("gx_cof0_word", OPS, "cofactor0_inplace", ["ind <= 5"], "assign:*t", [("ind", "nat"), ("t", "N")]),
    S("gx_cof1_word", OPS, "cofactor1_inplace", ["ind <= 5"], "assign:*t", [("ind", "nat"), ("t", "N")]),
    S("gx_from_cof_word", OPS, "from_cofactors_inplace", ["ind <= 5"], "assign:table[i]",
      [("ind", "nat"), ("w0", "N"), ("w1", "N")], {"t0[i]": "w0", "t1[i]": "w1"}),
    S("gx_next_mask", OPS, "next_inplace", [], "let:mask", [("num_vars", "nat")]),
    S("gx_next_word", OPS, "next_inplace", [], "assign:*t", [("mask", "N"), ("t", "N")]),
    S("gx_helper_mask", DEC, "input_property_helper", [], "let:mask", [("num_vars", "nat")]),
    S("gx_helper_c1", DEC, "input_property_helper", ["ind <= 5"], "let:c1", [("ind", "N"), ("t", "N")]),
    S("gx_helper_c0", DEC, "input_property_helper", ["ind <= 5"], "let:c0", [("ind", "N"), ("t", "N")]),
    S("gx_helper_test_low", DEC, "input_property_helper", ["ind <= 5"], "assign:ret",
      [("op", "fun2"), ("mask", "N"), ("ret", "bool"), ("c0", "N"), ("c1", "N")]),
    S("gx_helper_test_high", DEC, "input_property_helper", ["else", "i & stride == 0"], "assign:ret",
      [("op", "fun2"), ("mask", "N"), ("ret", "bool"), ("c0", "N"), ("c1", "N")]),
    S("gx_op_independent", DEC, "input_independent", [], "callarg:input_property_helper:3", []),
    S("gx_op_and", DEC, "input_and", [], "callarg:input_property_helper:3", []),
    S("gx_op_or", DEC, "input_or", [], "callarg:input_property_helper:3", []),
    S("gx_op_nand", DEC, "input_nand", [], "callarg:input_property_helper:3", []),
    S("gx_op_nor", DEC, "input_nor", [], "callarg:input_property_helper:3", []),
    S("gx_op_xor", DEC, "input_xor", [], "callarg:input_property_helper:3", []),
    S("gx_op_pos_unate", DEC, "input_pos_unate", [], "callarg:input_property_helper:3", []),
    S("gx_op_neg_unate", DEC, "input_neg_unate", [], "callarg:input_property_helper:3", []),
]

# Regimes of the listed kernels that are deliberately NOT translated (whole-word moves, no word arithmetic),
# and locals that are index bookkeeping rather than word expressions.  Everything else in a listed kernel
# must be accounted for by a definition.
SKIPPED = {
    (OPS, "swap_inplace", ("else",)): "i, j > 5: whole words are exchanged",
    (OPS, "flip_inplace", ("else",)): "ind > 5: whole words are exchanged",
    (OPS, "cofactor0_inplace", ("else",)): "ind > 5: whole words are copied",
    (OPS, "cofactor1_inplace", ("else",)): "ind > 5: whole words are copied",
    (OPS, "from_cofactors_inplace", ("else",)): "ind > 5: whole words are copied",
}
# (file, fn, local) -> reason
SKIPPED_LETS = {
    (OPS, "swap_inplace", "mi"): "word index stride 2^(i-6) of the cross regime (a nat in the model)",
    (DEC, "input_property_helper", "stride"): "word index stride 2^(ind-6) (a nat in the model)",
}
# locals that a definition is abstracted over (filled while generating; listed at the end of Exprs.v)
OVERRIDDEN = []
# (file, fn) -> Fn of the last run of generate() (part 3 reads which statements part 1 accounts for)
FN_CACHE1 = {}


# ----------------------------------------------------------------------------------------------
# locating regimes and targets

class Fn:
    def __init__(self, file, name, src):
        self.file, self.name, self.src = file, name, src
        self.where = "%s: fn %s" % (file, name)
        self.toks = tokenize(src, self.where)
        self.body = parse_block(self.toks, self.where)


def cond_text(cond):
    return "else" if cond is None else norm(cond)


def find_region(fn, path):
    """-> (block, scope) : scope = the lets visible on entry of the block, in source order"""
    block, scope = fn.body, []
    done = []
    for sel in path:
        want = norm_str(sel, fn.where) if sel != "else" else "else"
        hits = []

        def search(b, sc):
            sc = list(sc)
            for s in b:
                if s.kind == "let":
                    sc.append(s)
                elif s.kind == "for":
                    search(s.body, sc)
                elif s.kind == "if":
                    for cond, body in s.branches:
                        if cond_text(cond) == want:
                            hits.append((body, list(sc)))
        search(block, scope)
        if len(hits) != 1:
            fail("%s: %d branches `%s` found below [%s] (exactly one expected) - the regime structure of the "
                 "kernel has changed" % (fn.where, len(hits), sel, ", ".join(done)))
        block, scope = hits[0]
        done.append(sel)
    return block, scope


def flatten(block, scope):
    """statements of a regime with the lets visible at each of them; `for` bodies are entered"""
    out = []
    sc = list(scope)
    for s in block:
        out.append((s, list(sc)))
        if s.kind == "let":
            sc.append(s)
        elif s.kind == "for":
            out.extend(flatten(s.body, sc))
    return out


def stmt_text(fn, s):
    return text_of(fn.src, s.toks)


def pick(fn, spec, cands, what):
    if len(cands) != 1:
        fail("%s [%s]: %d candidates for %s `%s` (exactly one expected)%s" % (
            fn.where, ", ".join(spec["path"]), len(cands), what, spec["target"],
            "".join("\n    " + stmt_text(fn, c[0]) for c in cands)))
    return cands[0]


def find_target(fn, spec, flat):
    """-> (expr AST, stmt, scope at stmt)"""
    target = spec["target"]
    where = "%s [%s]" % (fn.where, ", ".join(spec["path"]))
    if target.startswith("assign:"):
        lhs = norm_str(target[len("assign:"):], where)
        s, sc = pick(fn, spec, [(s, sc) for s, sc in flat if s.kind == "assign" and norm(s.lhs) == lhs], "assignment")
        w = "%s: `%s`" % (where, stmt_text(fn, s))
        rhs = parse_expr(s.rhs, w)
        if s.op == "=":
            return rhs, s, sc
        if s.op in ("&=", "|=", "^=", "+=", "-=", "<<=", ">>="):
            return ("bin", s.op[:-1], parse_expr(s.lhs, w), rhs), s, sc
        fail("%s: compound assignment `%s` is outside the vocabulary" % (w, s.op))
    if target.startswith("let:"):
        name = target[len("let:"):]
        cands = [(s, sc) for s, sc in flat if s.kind == "let" and s.name == name]
        if not cands:
            # a local of an enclosing block
            outer = [s for s in spec["_scope"] if s.name == name]
            cands = [(outer[-1], spec["_scope"][:spec["_scope"].index(outer[-1])])] if outer else []
        s, sc = pick(fn, spec, cands, "local")
        if s.rhs is None:
            fail("%s: `%s` has no initializer" % (where, stmt_text(fn, s)))
        return parse_expr(s.rhs, "%s: `%s`" % (where, stmt_text(fn, s))), s, sc
    if target == "tail":
        s, sc = pick(fn, spec, [(s, sc) for s, sc in flat if s.kind == "expr" and s.tail], "tail expression")
        return parse_expr(s.expr, "%s: `%s`" % (where, stmt_text(fn, s))), s, sc
    if target.startswith("callarg:"):
        _, f, k = target.split(":")
        cands = []
        for s, sc in flat:
            if s.kind != "expr":
                continue
            e = parse_expr(s.expr, "%s: `%s`" % (where, stmt_text(fn, s)))
            calls = [x for x in subexprs(e) if x[0] == "call" and x[1] == ("path", f)]
            for c in calls:
                cands.append((s, sc, c))
        if len(cands) != 1:
            fail("%s: %d calls of `%s` (exactly one expected)" % (where, len(cands), f))
        s, sc, c = cands[0]
        if int(k) >= len(c[2]):
            fail("%s: `%s`: call of %s has no argument %s" % (where, stmt_text(fn, s), f, k))
        return c[2][int(k)], s, sc
    if target.startswith("index:"):
        v = target[len("index:"):]
        cands = []
        for s, sc in flat:
            toks = s.expr if s.kind == "expr" else (s.lhs if s.kind == "assign" else None)
            if toks is None:
                continue
            e = parse_expr(toks, "%s: `%s`" % (where, stmt_text(fn, s)))
            for x in subexprs(e):
                if x[0] == "idx" and x[1] == ("path", v):
                    cands.append((s, sc, x))
        if len(cands) != 1:
            fail("%s: %d places `%s[..]` (exactly one expected)" % (where, len(cands), v))
        s, sc, x = cands[0]
        return x[2], s, sc
    fail("internal: unknown target kind %s" % target)


def build_definition(fn, spec):
    where0 = "%s [%s]" % (fn.where, ", ".join(spec["path"]))
    block, scope = find_region(fn, spec["path"])
    spec["_scope"] = scope
    flat = flatten(block, scope)
    expr, stmt, sc = find_target(fn, spec, flat)
    where = "%s: `%s`" % (where0, stmt_text(fn, stmt))
    abstractions = [(parse_expr(tokenize(k, where), where), v) for k, v in spec["abs"].items()]
    params = list(spec["params"])
    closure_params = []
    if expr[0] == "closure":
        closure_params = list(expr[1])
        expr = expr[2]
        n = 0
        for p in closure_params:
            if p == "_":
                n += 1
                params.append(("_unused%d" % n, "N"))
            else:
                params.append((p, "N"))
    pnames = {p for p, _ in params}
    for _, v in abstractions:
        if v not in pnames:
            fail("%s: abstraction parameter %s is not a parameter of %s" % (where, v, spec["name"]))

    # the locals the expression depends on, innermost first, emitted in source order
    needed = []

    def visit(e, visible):
        for v in sorted(free_vars(e, abstractions)):
            if v in pnames or v in KNOWN_GLOBALS:
                continue
            defs = [s for s in visible if s.name == v]
            if not defs:
                fail("%s: `%s` is neither a parameter of %s, a local of the regime nor a known constant" % (
                    where, v, spec["name"]))
            d = defs[-1]
            if d in needed:
                continue
            if d.rhs is None:
                fail("%s: local `%s` has no initializer" % (where, v))
            needed.append(d)
            d.ast = parse_expr(d.rhs, "%s: `%s`" % (where0, stmt_text(fn, d)))
            visit(d.ast, visible[:visible.index(d)])
    visit(expr, sc)
    # locals overridden by a parameter count as accounted for
    for s in sc:
        if s.kind == "let" and s.name in pnames:
            s.covered = True
            ent = (fn.file, fn.name, stmt_text(fn, s))
            if ent not in OVERRIDDEN:
                OVERRIDDEN.append(ent)
    order = [s for s in sc if s in needed]
    tr = Translator(where, dict(params), abstractions)
    lets = []
    for d in order:
        text, ty = Translator.tr(tr, d.ast)
        if ty == "lit":
            ty = "N"
        lets.append((cid(d.name), text))
        tr.env[d.name] = ty
        d.covered = True
    body, ty = tr.tr(expr)
    if ty not in ("N", "nat", "bool"):
        fail("%s: result of type %s" % (where, ty))
    stmt.covered = True
    binders = " ".join("(%s : %s)" % (cid(p), COQ_TYPE[t]) for p, t in params)
    text = "Definition %s%s : %s :=\n  %s%s." % (
        spec["name"], (" " + binders) if binders else "", ty,
        "".join("let %s := %s in\n  " % (n, t) for n, t in lets), body)
    src_stmts = [stmt_text(fn, d) for d in order] + [stmt_text(fn, stmt)]
    return {"name": spec["name"], "text": text, "file": spec["file"], "fn": spec["fn"], "path": spec["path"],
            "stmt": stmt_text(fn, stmt), "lets": [stmt_text(fn, d) for d in order], "type": ty,
            "params": params, "src": src_stmts}


def trivial_expr(e):
    if e[0] in ("int", "path"):
        return True
    if e[0] == "un" and e[1] in ("*", "&"):
        return trivial_expr(e[2])
    if e[0] == "call":
        return all(trivial_expr(a) for a in e[2])
    if e[0] == "mcall":
        return trivial_expr(e[1]) and all(trivial_expr(a) for a in e[3])
    return False


def npath(path, where):
    return tuple(x if x == "else" else norm_str(x, where) for x in path)


def check_coverage(fn, regions):
    """Walks the whole body of a listed kernel.  In the function body and in every branch that is (or leads
    to) a translated regime, each let / assignment / non-trivial expression statement must be used by some
    generated definition (or be listed in SKIPPED_LETS).  Every other branch must be listed in SKIPPED or
    contain no such statement."""
    regs = {npath(r, fn.where) for r in regions}
    skipped = {npath(k[2], fn.where) for k in SKIPPED if k[0] == fn.file and k[1] == fn.name}

    def leads_to_region(p):
        return any(r[:len(p)] == p for r in regs)

    def walk(b, path, strict):
        for s in b:
            where = "%s [%s]: `%s`" % (fn.where, ", ".join(path), stmt_text(fn, s))
            if s.kind == "let":
                if strict:
                    if not s.covered and (fn.file, fn.name, s.name) not in SKIPPED_LETS:
                        fail("%s: local is not accounted for by any generated definition" % where)
                else:
                    fail("%s: statement in a regime that is neither translated nor listed in SKIPPED" % where)
            elif s.kind == "assign":
                if not strict:
                    fail("%s: statement in a regime that is neither translated nor listed in SKIPPED" % where)
                if not s.covered:
                    fail("%s: assignment is not accounted for by any generated definition" % where)
            elif s.kind == "expr":
                if not s.covered and not trivial_expr(parse_expr(s.expr, where)):
                    fail("%s: expression statement is not accounted for by any generated definition" % where)
            elif s.kind == "for":
                walk(s.body, path, strict)
            elif s.kind == "if":
                if s.covered:
                    continue
                for cond, body in s.branches:
                    p2 = path + (cond_text(cond),)
                    if strict and leads_to_region(p2):
                        walk(body, p2, True)
                    elif p2 in skipped:
                        continue
                    else:
                        walk(body, p2, False)
    walk(fn.body, (), True)


def coq_comment(s):
    return s.replace("(*", "( *").replace("*)", "* )").replace('"', "'")


def generate():
    del OVERRIDDEN[:]
    sources = {}
    fn_cache = {}
    for rel in (OPS, DEC):
        src = G.cut_tests(G.strip_comments(G.read(rel)))
        sources[rel] = {name: body for _, _, name, _, body in G.fns(src)}
    defs = []
    regions = {}
    for spec in SPECS:
        key = (spec["file"], spec["fn"])
        if spec["fn"] not in sources[spec["file"]]:
            fail("%s: fn %s not found" % (spec["file"], spec["fn"]))
        if key not in fn_cache:
            fn_cache[key] = Fn(spec["file"], spec["fn"], sources[spec["file"]][spec["fn"]])
        defs.append(build_definition(fn_cache[key], spec))
        regions.setdefault(key, set()).add(spec["path"])
    for key, fn in fn_cache.items():
        check_coverage(fn, regions[key])
    FN_CACHE1.clear()
    FN_CACHE1.update(fn_cache)
    # every SKIPPED regime must still exist (otherwise the list is stale)
    for (file, fname, path) in SKIPPED:
        if (file, fname) in fn_cache:
            find_region(fn_cache[(file, fname)], path)
        else:
            fail("SKIPPED names %s: %s, which is not a translated kernel" % (file, fname))

    lines = []
    lines.append("(* GENERATED by gen/gen_exprs.py from src/operations.rs and src/decomposition.rs - do not edit.")
    lines.append("   Word-level expressions of the kernels, translated from the Rust source text on every run.")
    lines.append("   Proofs/ExprsTie.v proves that each of them is the expression of the hand-written model. *)")
    lines.append("From Coq Require Import List NArith Arith Bool.")
    lines.append("From V Require Import Base.Res Gen.Tables Model.Kernels.")
    lines.append("Import ListNotations.")
    lines.append("Open Scope N_scope.")
    lines.append("")
    for d in defs:
        regime = (" [" + ", ".join("if " + p if p != "else" else p for p in d["path"]) + "]") if d["path"] else ""
        cm = "(* %s: %s%s, `%s`" % (d["file"].replace("src/", ""), d["fn"], regime, coq_comment(d["stmt"]))
        if d["lets"]:
            cm += "\n   with " + "  ".join("`%s`" % coq_comment(x) for x in d["lets"])
        cm += " *)"
        lines.append(cm)
        lines.append(d["text"])
        lines.append("")
    lines.append("(* regimes of these kernels that are deliberately not translated:")
    for (file, fname, path), why in sorted(SKIPPED.items()):
        lines.append("   %s: %s [%s]%s" % (file.replace("src/", ""), fname, ", ".join(path), (" - " + why) if why else ""))
    lines.append("   locals that are not word expressions:")
    for (file, fname, name), why in sorted(SKIPPED_LETS.items()):
        lines.append("   %s: %s `%s` - %s" % (file.replace("src/", ""), fname, name, why))
    lines.append("   locals over which a definition above is abstracted (they are parameters there):")
    for file, fname, st in OVERRIDDEN:
        lines.append("   %s: %s `%s`" % (file.replace("src/", ""), fname, coq_comment(st)))
    lines.append("*)")
    lines.append("")
    return "\n".join(lines), defs


# ==============================================================================================
# PART 2: two-level forms (sop/cube.rs, sop/ecube.rs), the BDD kernel (bdd.rs) and the certificate
# reconstruction of canonization.rs  ->  coq/Gen/Exprs2.v   (tied to the model by Proofs/ExprsTie2.v)
#
# Differences with part 1 (part 1 is left as it is, its output is byte-identical):
#   * expressions are typed by the DECLARED Rust types: struct fields, function signatures, closure parameter
#     annotations, `let x: T`, literal suffixes.  u8/u32/u64/usize are all `N` in Gallina but the width decides
#         !x           -> not32 x (u32)   not64 x (u64, usize)      negb x (bool)
#         e as u32     -> wrap32 e  when e is wider than 32 bits,   e as u8 -> wrap8 e,   widening casts -> e
#         x << s       -> wrap32 (N.shiftl x s) (u32)   shl64 x s (u64)      1 << s -> N.shiftl 1 s  (any width)
#     a literal takes the type of its context (field, other operand, annotation, return type)
#   * x.count_ones() -> popcount x    x.trailing_zeros() -> Canon.trailing_zeros x    a % b -> a mod b
#     x.saturating_sub(y) -> x - y  (subtraction of N is the saturating one)    s.len() -> N.of_nat (length s)
#   * struct literals and fields:  Cube { pos: a, neg: b } -> mkCube a b   c.pos -> cpos c  (field list and field
#     types are read from the `struct` item; the Gallina record is vocabulary)
#   * a function translated as a whole (target `value`: lets, if/else and early `return`s of the body become one
#     expression) can be called from the functions translated after it: `c.is_zero()` -> gx_cube_is_zero c,
#     `Cube::zero()` -> gx_cube_zero, `a & b` on cubes -> the BitAnd impl selected by the operand types
#   * `==` on a struct is the derived PartialEq: cube_eqb / ecube_eqb of the model
#   * on request (guard=True) the dev-profile checks of the shift amounts of a definition (amount < width of the
#     shifted type) are emitted as a boolean companion definition <name>_shift_ok

CUBE = "src/sop/cube.rs"
ECUBE = "src/sop/ecube.rs"
BDD = "src/bdd.rs"
CANON = "src/canonization.rs"
FILES2 = (CUBE, ECUBE, BDD, CANON)

INT_WIDTH = {"u8": 8, "u16": 16, "u32": 32, "u64": 64, "usize": 64}
WRAP = {8: "wrap8", 32: "wrap32", 64: "wrap64"}
NOT = {32: "not32", 64: "not64"}

# Rust struct -> Gallina record (vocabulary; the field names, their order and their types are checked against /
# read from the `struct` item of the source)
STRUCT_VOCAB = {
    "Cube": {"file": CUBE, "ty": "cube", "ctor": "mkCube", "proj": [("pos", "cpos"), ("neg", "cneg")], "eqb": "cube_eqb"},
    "Ecube": {"file": ECUBE, "ty": "ecube", "ctor": "mkEcube", "proj": [("vars", "evars"), ("xnor", "exnor")],
              "eqb": "ecube_eqb"},
}
STRUCT_OF_TY = {v["ty"]: k for k, v in STRUCT_VOCAB.items()}
OP_TRAITS = {"&": ("BitAnd", "bitand"), "^": ("BitXor", "bitxor"), "|": ("BitOr", "bitor")}

COQ_TYPE2 = {"u8": "N", "u16": "N", "u32": "N", "u64": "N", "usize": "N", "lit": "N", "nat": "nat", "bool": "bool",
             "cube": "cube", "&cube": "cube", "ecube": "ecube", "&ecube": "ecube"}


def coq_type2(ty, where):
    if ty in COQ_TYPE2:
        return COQ_TYPE2[ty]
    if ty.startswith("slice:") and ty[6:] in INT_WIDTH:
        return "list N"
    fail("%s: no Gallina type for the Rust type `%s`" % (where, ty))


def is_int(ty):
    return ty in INT_WIDTH or ty in ("nat", "lit")


def base_ty(ty):
    return ty[1:] if ty.startswith("&") else ty


# part 4 adds vector / iterator / Lut / string types while it runs
RUST_TYPE_EXTRA = [None]


def rust_type(text, self_ty=None, output_ty=None):
    """Rust type text -> type of the translator"""
    t = "".join(text.split())
    if t in ("Self::Output", "Self::Output"):
        return output_ty or ("opaque:" + t)
    if RUST_TYPE_EXTRA[0] is not None:
        extra = RUST_TYPE_EXTRA[0](t, self_ty, output_ty)
        if extra:
            return extra
    ref = False
    if t.startswith("&mut"):
        ref, t = True, t[4:]
    elif t.startswith("&"):
        ref, t = True, t[1:]
    if t == "Self" and self_ty:
        return ("&" + base_ty(self_ty)) if ref else self_ty
    if t in INT_WIDTH or t == "bool":
        return t
    if t in STRUCT_VOCAB:
        return ("&" if ref else "") + STRUCT_VOCAB[t]["ty"]
    m = re.fullmatch(r"\[(\w+)\]|Vec<(\w+)>", t)
    if m and (m.group(1) or m.group(2)) in INT_WIDTH:
        return "slice:" + (m.group(1) or m.group(2))
    return "opaque:" + t


IMPL_START = re.compile(r"(^|\n)[ \t]*impl\b")
FN2_RE = re.compile(r"\bfn\s+([a-zA-Z_0-9]+)\s*(<[^>]*>)?\s*\(", re.S)


def fns_with_ret(body):
    """(name, params text, return type text or '', fn body) for each fn directly in body (same scan as gen.fns)"""
    pos = 0
    while True:
        m = FN2_RE.search(body, pos)
        if not m:
            return
        i = m.end() - 1
        depth = 0
        j = i
        while j < len(body):
            if body[j] == "(":
                depth += 1
            elif body[j] == ")":
                depth -= 1
                if depth == 0:
                    break
            j += 1
        params = body[i + 1:j]
        k = semi = -1
        d2 = 0
        q = j + 1
        while q < len(body):
            ch = body[q]
            if ch in "([<":
                d2 += 1
            elif ch in ")]>":
                if not (ch == ">" and body[q - 1] == "-"):
                    d2 -= 1
            elif ch == ";" and d2 <= 0:
                semi = q
                break
            elif ch == "{" and d2 <= 0:
                k = q
                break
            q += 1
        if k < 0 or (0 <= semi < k):
            pos = j + 1
            continue
        ret = " ".join(body[j + 1:k].split())
        ret = ret[2:].strip() if ret.startswith("->") else ""
        e = G.match_brace(body, k)
        yield m.group(1), " ".join(params.split()), ret, body[k + 1:e]
        pos = e + 1


def split_top(text, sep=","):
    out, depth, cur = [], 0, ""
    for ch in text:
        if ch in "([<{":
            depth += 1
        elif ch in ")]>}":
            depth -= 1
        if ch == sep and depth == 0:
            out.append(cur)
            cur = ""
        else:
            cur += ch
    if cur.strip():
        out.append(cur)
    return [x.strip() for x in out]


class Source2:
    """one Rust file: struct items, `use` of cmp::max/min, every fn keyed by (impl header or '', name)"""

    def __init__(self, rel):
        self.rel = rel
        src = G.cut_tests(G.strip_comments(G.read(rel)))
        self.src = src
        self.cmp_imports = set()
        for m in re.finditer(r"\buse\s+(?:std|core)::([^;]*);", src):
            for name in ("max", "min"):
                if re.search(r"\bcmp::(?:\{[^}]*\b%s\b[^}]*\}|%s\b)" % (name, name), m.group(1)):
                    self.cmp_imports.add(name)
        self.structs = {}
        for m in re.finditer(r"\bstruct\s+([A-Za-z0-9_]+)\s*\{", src):
            j = G.match_brace(src, m.end() - 1)
            fields = []
            for f in split_top(src[m.end():j]):
                f = re.sub(r"^pub(\([a-z]+\))?\s+", "", f)
                name, _, ty = f.partition(":")
                fields.append((name.strip(), "".join(ty.split())))
            self.structs[m.group(1)] = fields
        self.fns = {}
        self.order = []
        pos = 0
        rest = []
        while True:
            m = IMPL_START.search(src, pos)
            if not m:
                rest.append(src[pos:])
                break
            i = src.find("{", m.end())
            j = G.match_brace(src, i)
            header = " ".join(src[m.start():i].split())
            rest.append(src[pos:m.start()])
            self._register(header, src[i + 1:j])
            pos = j + 1
        self._register("", "".join(rest))

    def _register(self, header, body):
        self_ty = output_ty = None
        if header:
            m = re.match(r"impl\s+(?:(.*?)\s+for\s+)?(\S+)$", header)
            if not m:
                fail("%s: cannot read the impl header `%s`" % (self.rel, header))
            self_ty = rust_type(m.group(2))
            mo = re.search(r"\btype\s+Output\s*=\s*([^;]+);", body)
            if mo:
                output_ty = rust_type(mo.group(1), self_ty)
        for name, params, ret, fbody in fns_with_ret(body):
            key = (header, name)
            if key in self.fns:
                fail("%s: two functions `%s` in `%s`" % (self.rel, name, header or "the file"))
            ps = []
            mut_self = False
            for p in split_top(params):
                q = "".join(p.split())
                mut_self = mut_self or q == "&mutself"
                if q in ("self", "mutself"):
                    ps.append(("self", self_ty))
                elif q in ("&self", "&mutself"):
                    ps.append(("self", "&" + base_ty(self_ty)))
                else:
                    pn, _, pt = p.partition(":")
                    pn = pn.replace("mut ", "").strip()
                    ps.append((pn, rust_type(pt, self_ty, output_ty)))
            self.fns[key] = {"params": ps, "ret": rust_type(ret, self_ty, output_ty) if ret else "unit",
                             "body": fbody, "header": header, "name": name, "mut_self": mut_self}
            self.order.append(key)


def fn_label(impl, name):
    return ("%s :: fn %s" % (impl, name)) if impl else ("fn " + name)


# ----------------------------------------------------------------------------------------------
# part 2: typed translation

# whole functions already translated: (file, impl header, fn) -> {"name", "params": [types], "ret": type}
REGISTRY = {}
SOURCES2 = {}


def subexprs2(e):
    yield e
    k = e[0]
    if k in ("un", "field"):
        yield from subexprs2(e[1] if k == "field" else e[2])
    elif k == "cast":
        yield from subexprs2(e[1])
    elif k == "bin":
        yield from subexprs2(e[2])
        yield from subexprs2(e[3])
    elif k == "idx":
        yield from subexprs2(e[1])
        yield from subexprs2(e[2])
    elif k == "if":
        for x in e[1:4]:
            yield from subexprs2(x)
    elif k == "closure":
        if e[2][0] != "block":
            yield from subexprs2(e[2])
    elif k == "call":
        yield from subexprs2(e[1])
        for a in e[2]:
            yield from subexprs2(a)
    elif k == "mcall":
        yield from subexprs2(e[1])
        for a in e[3]:
            yield from subexprs2(a)
    elif k == "struct":
        for _, x in e[2]:
            yield from subexprs2(x)
    elif k == "range":
        for x in e[1:3]:
            if x is not None:
                yield from subexprs2(x)
    elif k == "let":
        yield from subexprs2(e[3])
        yield from subexprs2(e[4])


def free_vars2(e, abstractions, bound=frozenset()):
    for ast, name in abstractions:
        if ast == e:
            return {name}
    k = e[0]
    if k in ("int", "tuple", "str", "char"):
        return set()
    if k == "path":
        return set() if ("::" in e[1] or e[1] in bound) else {e[1]}
    if k == "closure":
        if e[2][0] == "block":
            fail("internal: free variables of a block closure")
        return free_vars2(e[2], abstractions, bound | set(e[1]))
    if k == "let":
        return free_vars2(e[3], abstractions, bound) | free_vars2(e[4], abstractions, bound | {e[1]})
    kids = {"un": [e[2]] if k == "un" else [], "field": [e[1]] if k == "field" else [], "cast": [e[1]] if k == "cast" else [],
            "bin": list(e[2:4]) if k == "bin" else [], "idx": list(e[1:3]) if k == "idx" else [],
            "if": list(e[1:4]) if k == "if" else [],
            "call": (([] if e[1][0] == "path" else [e[1]]) + list(e[2])) if k == "call" else [],
            "mcall": ([e[1]] + list(e[3])) if k == "mcall" else [],
            "struct": [x for _, x in e[2]] if k == "struct" else [],
            "range": [x for x in e[1:3] if x is not None] if k == "range" else []}
    if k not in kids:
        fail("internal: free_vars2 of %r" % (k,))
    s = set()
    for x in kids[k]:
        s |= free_vars2(x, abstractions, bound)
    return s


class Translator2:
    def __init__(self, where, env, abstractions, source, hints=None):
        self.where = where
        self.env = dict(env)              # rust name -> type
        self.abstractions = abstractions  # [(ast, parameter name)]
        self.source = source              # Source2 of the function (cmp imports, struct items)
        self.hints = hints or {}          # local -> type, for locals whose type rustc infers from a use we do not see
        self.guards = []                  # (shift amount text, width or None), in emission order
        self.recording = True
        self.calls = []                   # generated definitions this one forwards to

    def err(self, msg):
        fail("%s: cannot translate: %s" % (self.where, msg))

    paren = staticmethod(Translator.paren)

    def abstracted(self, e):
        for ast, name in self.abstractions:
            if ast == e:
                return name
        return None

    def ty_of(self, e, want=None):
        rec, self.recording = self.recording, False
        n = len(self.calls)
        try:
            return self.tr(e, want)[1]
        finally:
            self.recording = rec
            del self.calls[n:]

    @staticmethod
    def unify(a, b):
        """common type of two integer operands, or None"""
        if a == b:
            return a
        if a == "lit":
            return b
        if b == "lit":
            return a
        if a == "nat" and b == "usize" or a == "usize" and b == "nat":
            return "usize"
        return None

    def lit(self, e, ty):
        v, hexa = e[1], e[2]
        if ty == "nat":
            if v > 1000:
                self.err("literal %d in a nat context" % v)
            return "%d%%nat" % v
        if ty in INT_WIDTH and v >= 2 ** INT_WIDTH[ty]:
            self.err("literal %d does not fit %s" % (v, ty))
        return ("0x%x" % v) if hexa and v > 9 else str(v)

    def coerce(self, e, want):
        """translate e at type want (an integer type, 'bool' or a struct type); nat <-> N conversions inserted"""
        text, ty = self.tr(e, want)
        if ty == want or ty == "lit" and is_int(want):
            return text
        if ty == "nat" and want in INT_WIDTH:
            if want != "usize":
                self.err("`%s` is a usize (nat) where %s is expected" % (text, want))
            return "N.of_nat " + self.paren(text)
        if ty == "usize" and want == "nat":
            return "N.to_nat " + self.paren(text)
        if base_ty(ty) == base_ty(want) and base_ty(ty) in STRUCT_OF_TY:
            return text
        self.err("type mismatch: `%s` has type %s where %s is expected" % (text, ty, want))

    def as_amount(self, e):
        """a shift amount (any integer type) as N"""
        text, ty = self.tr(e, None)
        if not is_int(ty):
            self.err("shift amount `%s` of type %s" % (text, ty))
        return ("N.of_nat " + self.paren(text)) if ty == "nat" else text

    # -- main
    def tr(self, e, want=None):
        a = self.abstracted(e)
        if a is not None:
            if a not in self.env:
                self.err("abstraction parameter %s is not declared" % a)
            return cid(a), self.env[a]
        k = e[0]
        if k == "int":
            ty = e[3] or (want if want and is_int(want) else "lit")
            if e[3] and e[3] not in INT_WIDTH:
                self.err("literal suffix %s" % e[3])
            return self.lit(e, ty), ty
        if k == "path":
            name = e[1]
            if name in PATH_CONSTS:
                return str(PATH_CONSTS[name]), "usize"
            if name in ("true", "false"):
                return name, "bool"
            if "::" in name:
                self.err("unknown path `%s`" % name)
            if name not in self.env:
                self.err("unknown identifier `%s`" % name)
            return cid(name), self.env[name]
        if k == "un":
            return self.tr_un(e, want)
        if k == "cast":
            return self.tr_cast(e)
        if k == "bin":
            return self.tr_bin(e, want)
        if k == "field":
            text, ty = self.tr(e[1])
            st = STRUCT_OF_TY.get(base_ty(ty))
            if st is None:
                self.err("field `%s` of `%s` : %s" % (e[2], text, ty))
            fields = dict(struct_fields(st, self.where))
            proj = dict(STRUCT_VOCAB[st]["proj"])
            if e[2] not in fields:
                self.err("`%s` has no field `%s`" % (st, e[2]))
            return "%s %s" % (proj[e[2]], self.paren(text)), fields[e[2]]
        if k == "struct":
            st = e[1]
            fields = struct_fields(st, self.where)
            given = dict(e[2])
            if sorted(given) != sorted(f for f, _ in fields) or len(given) != len(e[2]):
                self.err("`%s { .. }` does not give exactly the fields %s" % (st, ", ".join(f for f, _ in fields)))
            args = [self.paren(self.coerce(given[f], t)) for f, t in fields]
            return "%s %s" % (STRUCT_VOCAB[st]["ctor"], " ".join(args)), STRUCT_VOCAB[st]["ty"]
        if k == "call":
            return self.tr_call(e, want)
        if k == "mcall":
            return self.tr_mcall(e, want)
        if k == "if":
            c = self.coerce(e[1], "bool")
            ta, tb = self.ty_of(e[2], want), self.ty_of(e[3], want)
            if is_int(ta) and is_int(tb):
                ty = self.unify(ta, tb)
                if ty is None:
                    self.err("the branches of `if` have types %s and %s" % (ta, tb))
            elif base_ty(ta) == base_ty(tb):
                ty = base_ty(ta)
            else:
                self.err("the branches of `if` have types %s and %s" % (ta, tb))
            if ty == "lit":
                return "if %s then %s else %s" % (c, self.tr(e[2], want)[0], self.tr(e[3], want)[0]), "lit"
            return "if %s then %s else %s" % (c, self.coerce(e[2], ty), self.coerce(e[3], ty)), ty
        if k == "let":
            name, ann, rhs, body = e[1], e[2], e[3], e[4]
            ty = self.let_type(name, ann, rhs, body)
            text = self.coerce(rhs, ty) if ty != "lit" else self.tr(rhs)[0]
            sub = self.sub()
            sub.env[name] = ty
            btext, bty = sub.tr(body, want)
            self.absorb(sub)
            return "let %s := %s in\n  %s" % (cid(name), text, btext), bty
        if k == "idx":
            base = e[1]
            if base[0] == "path" and base[1] in TABLES_1D:
                return "nthN %s %s" % (base[1], self.paren(self.coerce(e[2], "nat"))), "u64"
            self.err("indexing (abstract the indexed place over a parameter)")
        self.err("node %r" % (k,))

    def sub(self):
        s = type(self)(self.where, self.env, self.abstractions, self.source, self.hints)
        s.recording = self.recording
        return s

    def absorb(self, sub):
        if self.recording:
            self.guards.extend(sub.guards)
            self.calls.extend(sub.calls)

    def let_type(self, name, ann, rhs, body):
        if ann:
            ty = rust_type(ann)
            if ty.startswith("opaque"):
                self.err("`let %s: %s`" % (name, ann))
            return ty
        ty = self.ty_of(rhs)
        if ty != "lit":
            return ty
        found = set()
        sub = self.sub()
        sub.env[name] = "lit"
        me = ("path", name)
        for x in subexprs2(body):
            other = None
            if x[0] == "bin" and x[1] not in ("<<", ">>", "&&", "||"):
                other = x[3] if x[2] == me else (x[2] if x[3] == me else None)
            if other is not None:
                try:
                    t = sub.ty_of(other)
                except GenExprError:
                    continue
                if t != "lit" and is_int(t):
                    found.add(t)
            if x[0] == "struct":
                for (f, v), (_, t) in zip(sorted(x[2]), sorted(struct_fields(x[1], self.where))):
                    if v == me:
                        found.add(t)
        if name in self.hints:
            found.add(self.hints[name])
        if len(found) > 1:
            self.err("local `%s` is used at the types %s" % (name, ", ".join(sorted(found))))
        return found.pop() if found else "lit"

    def tr_un(self, e, want):
        op, x = e[1], e[2]
        if op == "*":
            text, ty = self.tr(x, want)
            return text, base_ty(ty)
        if op == "&":
            text, ty = self.tr(x, want)
            return text, ("&" + ty) if ty in STRUCT_OF_TY else ty
        if op == "!":
            text, ty = self.tr(x, want)
            if ty == "bool":
                return "negb " + self.paren(text), "bool"
            if ty == "lit" and want in INT_WIDTH:
                ty = want
            if ty in INT_WIDTH and INT_WIDTH[ty] in NOT:
                return "%s %s" % (NOT[INT_WIDTH[ty]], self.paren(text)), ty
            if ty == "lit":
                if self.recording:
                    self.err("`!%s`: the width of the literal cannot be determined from the context" % text)
                return "not?? " + self.paren(text), "lit"
            self.err("`!` on `%s` : %s" % (text, ty))
        self.err("unary `%s` is outside the vocabulary" % op)

    def tr_cast(self, e):
        target = e[2]
        if target not in INT_WIDTH:
            self.err("cast to `%s`" % target)
        if e[1][0] == "int" and self.abstracted(e[1]) is None:
            return self.lit(e[1], target), target
        text, ty = self.tr(e[1])
        if ty == "lit":
            self.err("cast of `%s`, whose type is not determined" % text)
        if ty == "nat":
            if target != "usize":
                if INT_WIDTH[target] not in WRAP:
                    self.err("cast to %s" % target)
                return "%s (N.of_nat %s)" % (WRAP[INT_WIDTH[target]], self.paren(text)), target
            return text, "nat"
        if ty not in INT_WIDTH:
            self.err("cast of `%s` : %s" % (text, ty))
        if INT_WIDTH[target] < INT_WIDTH[ty]:
            if INT_WIDTH[target] not in WRAP:
                self.err("narrowing cast to %s" % target)
            return "%s %s" % (WRAP[INT_WIDTH[target]], self.paren(text)), target
        return text, target

    def operand_types(self, l, r, want):
        tl, tr_ = self.ty_of(l), self.ty_of(r)
        return tl, tr_

    def tr_bin(self, e, want):
        op, l, r = e[1], e[2], e[3]
        P = self.paren
        if op in ("&&", "||"):
            return "(%s %s %s)" % (P(self.coerce(l, "bool")), op, P(self.coerce(r, "bool"))), "bool"
        if op in ("<<", ">>"):
            s = self.as_amount(r)
            if op == "<<" and l[0] == "int" and self.abstracted(l) is None:
                if l[1] != 1:
                    self.err("left shift of the literal %d (only `1 << s` is read as a non-wrapping shift)" % l[1])
                ty = l[3] or (want if want in INT_WIDTH else "lit")
                if self.recording:
                    self.guards.append((s, INT_WIDTH.get(ty)))
                return "N.shiftl 1 %s" % P(s), ty
            text, ty = self.tr(l, want)
            if ty == "lit" and want in INT_WIDTH:
                ty = want
            if ty not in INT_WIDTH:
                self.err("shift of `%s` : %s" % (text, ty))
            if self.recording:
                self.guards.append((s, INT_WIDTH[ty]))
            if op == ">>":
                return "N.shiftr %s %s" % (P(text), P(s)), ty
            if ty == "u64" or ty == "usize":
                return "shl64 %s %s" % (P(text), P(s)), ty
            return "%s (N.shiftl %s %s)" % (WRAP[INT_WIDTH[ty]], P(text), P(s)), ty
        tl, tr_ = self.ty_of(l), self.ty_of(r)
        if op in ("&", "|", "^") and (tl == "bool" or tr_ == "bool"):
            a, b = P(self.coerce(l, "bool")), P(self.coerce(r, "bool"))
            if op == "^":
                return "xorb %s %s" % (a, b), "bool"
            return "(%s %s %s)" % (a, {"&": "&&", "|": "||"}[op], b), "bool"
        if op in OP_TRAITS and base_ty(tl) in STRUCT_OF_TY and base_ty(tr_) in STRUCT_OF_TY:
            return self.tr_operator(op, l, r, tl, tr_)
        if op in ("==", "!=") and base_ty(tl) in STRUCT_OF_TY and base_ty(tl) == base_ty(tr_):
            eqb = STRUCT_VOCAB[STRUCT_OF_TY[base_ty(tl)]]["eqb"]
            t = "%s %s %s" % (eqb, P(self.tr(l)[0]), P(self.tr(r)[0]))
            return (t if op == "==" else "negb (%s)" % t), "bool"
        if not (is_int(tl) and is_int(tr_)):
            self.err("`%s` on operands of types %s and %s" % (op, tl, tr_))
        ty = self.unify(tl, tr_)
        if ty is None:
            self.err("`%s` on operands of types %s and %s" % (op, tl, tr_))
        if op in COMPARISONS:
            if ty == "lit":
                ty = "usize"
            if ty == "nat":
                a, b = P(self.coerce(l, "nat")), P(self.coerce(r, "nat"))
                t = {"==": "Nat.eqb %s %s" % (a, b), "!=": "negb (Nat.eqb %s %s)" % (a, b),
                     "<": "Nat.ltb %s %s" % (a, b), "<=": "Nat.leb %s %s" % (a, b),
                     ">": "Nat.ltb %s %s" % (b, a), ">=": "Nat.leb %s %s" % (b, a)}[op]
                return t, "bool"
            a, b = P(self.coerce(l, ty)), P(self.coerce(r, ty))
            t = {"==": "(%s =? %s)" % (a, b), "!=": "negb (%s =? %s)" % (a, b),
                 "<": "(%s <? %s)" % (a, b), "<=": "(%s <=? %s)" % (a, b),
                 ">": "(%s <? %s)" % (b, a), ">=": "(%s <=? %s)" % (b, a)}[op]
            return t, "bool"
        if ty == "lit" and want and is_int(want):
            ty = want
        if ty == "lit":
            a, b = P(self.tr(l)[0]), P(self.tr(r)[0])
        else:
            a, b = P(self.coerce(l, ty)), P(self.coerce(r, ty))
        if op in ("&", "|", "^"):
            if ty == "nat":
                self.err("bitwise `%s` on nat operands" % op)
            return "%s %s %s" % ({"&": "N.land", "|": "N.lor", "^": "N.lxor"}[op], a, b), ty
        if op in ("+", "-", "*"):
            return ("(%s %s %s)%s" % (a, op, b, "%nat" if ty == "nat" else "")), ty
        if op in ("%", "/"):
            if ty == "nat":
                self.err("`%s` on nat operands" % op)
            return "(%s %s %s)" % (a, {"%": "mod", "/": "/"}[op], b), ty
        self.err("binary `%s` is outside the vocabulary" % op)

    def tr_operator(self, op, l, r, tl, tr_):
        trait, method = OP_TRAITS[op]
        st = STRUCT_OF_TY[base_ty(tl)]

        def rust(t):
            return ("&" if t.startswith("&") else "") + STRUCT_OF_TY[base_ty(t)]
        header = "impl %s<%s> for %s" % (trait, rust(tr_), rust(tl))
        return self.call_generated((STRUCT_VOCAB[st]["file"], header, method), [l, r], "`%s`" % op)

    def call_generated(self, key, args, what):
        reg = REGISTRY.get(key)
        if reg is None:
            self.err("%s resolves to %s: %s, which is not translated (or is translated later)" % (
                what, key[0], fn_label(key[1], key[2])))
        if len(args) != len(reg["params"]):
            self.err("%s: %d arguments for %s" % (what, len(args), reg["name"]))
        texts = [self.paren(self.coerce(a, t)) for a, t in zip(args, reg["params"])]
        if self.recording:
            self.calls.append(reg["name"])
        return (" ".join([reg["name"]] + texts)), reg["ret"]

    def tr_call(self, e, want):
        f, args = e[1], e[2]
        if f[0] != "path":
            self.err("call of a computed function")
        name = f[1]
        mm = MINMAX.get(name) or (name if name in self.source.cmp_imports else None)
        if mm and len(args) == 2:
            ta, tb = self.ty_of(args[0], want), self.ty_of(args[1], want)
            ty = self.unify(ta, tb) if is_int(ta) and is_int(tb) else None
            if ty is None:
                self.err("%s on operands of types %s and %s" % (name, ta, tb))
            if ty == "lit":
                ty = want if want and is_int(want) else "usize"
            mod = "Nat" if ty == "nat" else "N"
            return "%s.%s %s %s" % (mod, mm, self.paren(self.coerce(args[0], ty)), self.paren(self.coerce(args[1], ty))), ty
        if "::" in name:
            st, _, fn = name.rpartition("::")
            if st in STRUCT_VOCAB:
                return self.call_generated((STRUCT_VOCAB[st]["file"], "impl " + st, fn), list(args), "`%s`" % name)
        if self.env.get(name) == "fun2" and len(args) == 2:
            return "%s %s %s" % (cid(name), self.paren(self.coerce(args[0], "u64")), self.paren(self.coerce(args[1], "u64"))), "u64"
        self.err("call of `%s` is outside the vocabulary" % name)

    def tr_mcall(self, e, want):
        recv, name, args = e[1], e[2], e[3]
        text, ty = self.tr(recv, None)
        if base_ty(ty) in STRUCT_OF_TY:
            st = STRUCT_OF_TY[base_ty(ty)]
            return self.call_generated((STRUCT_VOCAB[st]["file"], "impl " + st, name), [recv] + list(args),
                                       "method `%s`" % name)
        if ty.startswith("slice:") and name == "len" and not args:
            return "N.of_nat (length %s)" % self.paren(text), "usize"
        if ty in INT_WIDTH:
            if name == "count_ones" and not args:
                return "popcount " + self.paren(text), "u32"
            if name == "trailing_zeros" and not args:
                return "Canon.trailing_zeros " + self.paren(text), "u32"
            if name == "wrapping_add" and len(args) == 1 and INT_WIDTH[ty] in WRAP:
                return "%s (%s + %s)" % (WRAP[INT_WIDTH[ty]], self.paren(text), self.paren(self.coerce(args[0], ty))), ty
            if name == "saturating_sub" and len(args) == 1:
                return "(%s - %s)" % (self.paren(text), self.paren(self.coerce(args[0], ty))), ty
        self.err("method `%s` on `%s` : %s is outside the vocabulary" % (name, text, ty))


def struct_fields(st, where):
    """[(field, type)] of a struct, read from its `struct` item and checked against the Gallina record"""
    voc = STRUCT_VOCAB[st]
    src = SOURCES2[voc["file"]]
    if st not in src.structs:
        fail("%s: struct %s not found in %s" % (where, st, voc["file"]))
    fields = [(f, voc.get("field_ty", {}).get(f) or rust_type(t)) for f, t in src.structs[st]]
    if [f for f, _ in fields] != [f for f, _ in voc["proj"]]:
        fail("%s: the fields of struct %s are %s (the Gallina record has %s, in this order: the derived order and "
             "equality depend on it)" % (where, st, [f for f, _ in fields], [f for f, _ in voc["proj"]]))
    return fields


# ----------------------------------------------------------------------------------------------
# part 2: regions, targets, definitions
#
# path elements:  a condition text / "else" (as in part 1)   "closure:<method>"  (the block of the closure passed to
#                 the unique call of that method in the current region)
# targets (in addition to assign: let: tail callarg: of part 1; `#k` selects the k-th candidate in source order,
# a trailing `/closure` takes the unique closure inside the selected expression):
#   value              the whole region as one expression (lets, if/else, `if c { return v; }`, final value)
#   condassign:<lhs>   `if c { lhs = e; }`  ->  if c then e else lhs   (compound assignments are expanded)
#   ifcond:<stmt>      the condition of the `if` (without else) whose body is exactly the statement <stmt>
#   assert:<k>         the argument of the k-th assert! / debug_assert! of the region
#   mcallarg:<m>:<k>   argument k of the unique call of method m in the region

def S2(name, file, impl, fn, path, target, params=(), abstractions=None, guard=False, hints=None):
    return {"name": name, "file": file, "impl": impl, "fn": fn, "path": tuple(path), "target": target,
            "params": list(params), "abs": abstractions or {}, "guard": guard, "hints": hints or {}}


class Fn2(Fn):
    def __init__(self, source, key):
        info = source.fns[key]
        self.info = info
        self.source = source
        self.impl = key[0]
        self.file, self.name, self.src = source.rel, key[1], info["body"]
        self.where = "%s: %s" % (source.rel, fn_label(key[0], key[1]))
        self.toks = tokenize(self.src, self.where)
        self.body = parse_block(self.toks, self.where)


def stmt_expr(fn, s):
    """parsed expression of an expression / return statement, memoized on the statement"""
    if not hasattr(s, "ast"):
        toks = s.expr if s.kind == "expr" else s.rhs
        s.ast = parse_expr(toks, "%s: `%s`" % (fn.where, stmt_text(fn, s)))
    return s.ast


def block_closures(fn, s):
    """closures with a block body inside an expression statement: [(method name or '', closure)]"""
    out = []
    if s.kind != "expr":
        return out
    try:
        e = stmt_expr(fn, s)
    except GenExprError:
        return out
    for x in subexprs2(e):
        if x[0] in ("mcall", "call"):
            args = x[3] if x[0] == "mcall" else x[2]
            for a in args:
                if a[0] == "closure" and a[2][0] == "block":
                    out.append((x[2] if x[0] == "mcall" else "", a))
    return out


# part 3 adds loop shapes (ranges, enumerate) while it runs
FOR_BINDER_EXTRA = [None]


def for_binder(fn, s, binders):
    """`for x in <slice parameter>`: x has the element type"""
    h = s.head
    if FOR_BINDER_EXTRA[0] is not None:
        extra = FOR_BINDER_EXTRA[0](fn, s, binders)
        if extra:
            return extra
    if len(h) >= 3 and h[0].kind == "id" and h[1].text == "in":
        rest = h[2:]
        if rest and rest[0].text == "&":
            rest = rest[1:]
        if len(rest) == 1 and rest[0].kind == "id":
            ty = dict(binders).get(rest[0].text, "")
            if ty.startswith("slice:"):
                return [(h[0].text, ty[6:])]
    return []


def find_region2(fn, path):
    """-> (block, scope lets, binders [(name, type)])"""
    block, scope = fn.body, []
    binders = list(fn.info["params"])
    done = []
    for sel in path:
        hits = []
        if sel.startswith("closure:"):
            meth = sel[len("closure:"):]

            def search(b, sc, bd):
                sc = list(sc)
                for s in b:
                    if s.kind == "let":
                        sc.append(s)
                    elif s.kind == "for":
                        search(s.body, sc, bd + for_binder(fn, s, bd))
                    elif s.kind == "expr":
                        for m, c in block_closures(fn, s):
                            if m == meth:
                                cb = [(p, rust_type(t)) for p, t in zip(c[1], c[3]) if t]
                                hits.append((c[2][1], list(sc), bd + cb, s))
        elif re.fullmatch(r"if#[0-9]+", sel):
            ifs = []

            def search(b, sc, bd):
                sc = list(sc)
                for s in b:
                    if s.kind == "let":
                        sc.append(s)
                    elif s.kind == "for":
                        search(s.body, sc, bd + for_binder(fn, s, bd))
                    elif s.kind == "if":
                        ifs.append((s.branches[0][1], list(sc), bd, s))
            search(block, scope, binders)
            k = int(sel[3:])
            if k >= len(ifs):
                fail("%s: no `if` statement number %d below [%s]" % (fn.where, k, ", ".join(done)))
            hits.append(ifs[k])

            def search(b, sc, bd):
                pass
        else:
            want = norm_str(sel, fn.where) if sel != "else" else "else"

            def search(b, sc, bd):
                sc = list(sc)
                for s in b:
                    if s.kind == "let":
                        sc.append(s)
                    elif s.kind == "for":
                        search(s.body, sc, bd + for_binder(fn, s, bd))
                    elif s.kind == "if":
                        for cond, body in s.branches:
                            if cond_text(cond) == want:
                                hits.append((body, list(sc), bd, s))
        search(block, scope, binders)
        if len(hits) != 1:
            fail("%s: %d regions `%s` found below [%s] (exactly one expected) - the structure of the function has "
                 "changed" % (fn.where, len(hits), sel, ", ".join(done)))
        block, scope, binders, st = hits[0]
        if st.kind == "if" and not sel.startswith("if#"):
            st.selected = True
        done.append(sel)
    return block, scope, binders


def flatten2(fn, block, scope, binders):
    """statements of a region with the lets and binders visible at each of them; `for` bodies are entered"""
    out = []
    sc = list(scope)
    for s in block:
        out.append((s, list(sc), binders))
        if s.kind == "let":
            sc.append(s)
        elif s.kind == "for":
            out.extend(flatten2(fn, s.body, sc, binders + for_binder(fn, s, binders)))
    return out


def mark_block(block):
    for s in block:
        s.covered = True
        if s.kind == "if":
            for _, b in s.branches:
                mark_block(b)
        elif s.kind == "for":
            mark_block(s.body)


def block_value(fn, block, where):
    """the value of a statement block as one expression"""
    if not block:
        fail("%s: block without a value" % where)
    s, rest = block[0], block[1:]
    w = "%s: `%s`" % (where, stmt_text(fn, s))
    if s.kind == "let":
        if s.name is None or s.rhs is None or not rest:
            fail("%s: `let` outside the translated fragment" % w)
        return ("let", s.name, s.ann, parse_expr(s.rhs, w), block_value(fn, rest, where))
    if s.kind == "if":
        has_else = s.branches[-1][0] is None
        if has_else:
            if rest:
                fail("%s: statements after an if/else used as a value" % w)
            e = block_value(fn, s.branches[-1][1], where)
            for cond, body in reversed(s.branches[:-1]):
                e = ("if", parse_expr(cond, w), block_value(fn, body, where), e)
            return e
        if len(s.branches) == 1 and len(s.branches[0][1]) == 1 and s.branches[0][1][0].kind == "return" and rest:
            r = s.branches[0][1][0]
            return ("if", parse_expr(s.branches[0][0], w), parse_expr(r.rhs, w), block_value(fn, rest, where))
        fail("%s: only `if c { return v; }` and if/else chains are read as values" % w)
    if s.kind == "expr" and s.tail and not rest:
        return stmt_expr(fn, s)
    if s.kind == "return" and not rest:
        return parse_expr(s.rhs, w)
    if s.kind == "macro" and s.name in ("assert", "debug_assert", "assert_eq", "debug_assert_eq"):
        return block_value(fn, rest, where)
    fail("%s: statement outside the fragment that is read as a value" % w)


def split_target(target):
    closure = target.endswith("/closure")
    if closure:
        target = target[:-len("/closure")]
    k = None
    m = re.search(r"#([0-9]+)$", target)
    if m:
        k = int(m.group(1))
        target = target[:m.start()]
    return target, k, closure


def pick2(fn, spec, cands, what, k):
    if k is not None:
        if k >= len(cands):
            fail("%s [%s]: only %d candidates for %s `%s`" % (fn.where, ", ".join(spec["path"]), len(cands), what,
                                                             spec["target"]))
        return cands[k]
    if len(cands) != 1:
        fail("%s [%s]: %d candidates for %s `%s` (exactly one expected)%s" % (
            fn.where, ", ".join(spec["path"]), len(cands), what, spec["target"],
            "".join("\n    " + stmt_text(fn, c[0]) for c in cands)))
    return cands[0]


def expand_assign(s, w):
    rhs = parse_expr(s.rhs, w)
    if s.op == "=":
        return rhs
    if s.op in ("&=", "|=", "^=", "+=", "-=", "<<=", ">>="):
        return ("bin", s.op[:-1], parse_expr(s.lhs, w), rhs)
    fail("%s: compound assignment `%s` is outside the vocabulary" % (w, s.op))


def find_target2(fn, spec, block, scope, binders):
    """-> (expr AST, [covered statements], scope at the statement, binders at the statement)"""
    target, k, want_closure = split_target(spec["target"])
    where = "%s [%s]" % (fn.where, ", ".join(spec["path"]))
    flat = flatten2(fn, block, scope, binders)
    want_ty = None

    def W(s):
        return "%s: `%s`" % (where, stmt_text(fn, s))
    if target == "value":
        e, cov, sc, bd = block_value(fn, block, where), list(block), scope, binders
        mark_block(block)
    elif target.startswith("valuefrom:"):
        name = target[len("valuefrom:"):]
        idx = [i for i, s in enumerate(block) if s.kind == "let" and s.name == name]
        if len(idx) != 1:
            fail("%s: %d statements `let %s` (exactly one expected)" % (where, len(idx), name))
        rest = block[idx[0]:]
        e, cov, sc, bd = block_value(fn, rest, where), rest, scope + [s for s in block[:idx[0]] if s.kind == "let"], binders
        mark_block(rest)
    elif target.startswith("assign:"):
        lhs = norm_str(target[len("assign:"):], where)
        s, sc, bd = pick2(fn, spec, [c for c in flat if c[0].kind == "assign" and norm(c[0].lhs) == lhs], "assignment", k)
        e, cov = expand_assign(s, W(s)), [s]
    elif target.startswith("condassign:"):
        lhs = norm_str(target[len("condassign:"):], where)
        cands = [c for c in flat if c[0].kind == "if" and len(c[0].branches) == 1 and len(c[0].branches[0][1]) == 1
                 and c[0].branches[0][1][0].kind == "assign" and norm(c[0].branches[0][1][0].lhs) == lhs]
        s, sc, bd = pick2(fn, spec, cands, "conditional assignment", k)
        a = s.branches[0][1][0]
        e = ("if", parse_expr(s.branches[0][0], W(s)), expand_assign(a, W(s)), parse_expr(a.lhs, W(s)))
        cov = [s, a]
    elif target.startswith("ifcond:"):
        body = norm_str(target[len("ifcond:"):], where)
        cands = [c for c in flat if c[0].kind == "if" and len(c[0].branches) == 1 and len(c[0].branches[0][1]) == 1
                 and norm(c[0].branches[0][1][0].toks) == body]
        s, sc, bd = pick2(fn, spec, cands, "condition", k)
        e, cov = parse_expr(s.branches[0][0], W(s)), [s]
        s.cond_covered = True
    elif target.startswith("let:"):
        name = target[len("let:"):]
        cands = [c for c in flat if c[0].kind == "let" and c[0].name == name]
        if not cands:
            outer = [s for s in scope if s.name == name]
            cands = [(outer[-1], scope[:scope.index(outer[-1])], binders)] if outer else []
        s, sc, bd = pick2(fn, spec, cands, "local", k)
        if s.rhs is None:
            fail("%s: no initializer" % W(s))
        e, cov = parse_expr(s.rhs, W(s)), [s]
        if s.ann and not want_closure:
            want_ty = rust_type(s.ann)
    elif target == "tail":
        s, sc, bd = pick2(fn, spec, [c for c in flat if c[0].kind == "expr" and c[0].tail], "tail expression", k)
        e, cov = stmt_expr(fn, s), [s]
    elif target.startswith("assert:"):
        cands = [c for c in flat if c[0].kind == "macro" and c[0].name in ("assert", "debug_assert")]
        s, sc, bd = pick2(fn, spec, cands, "assertion", int(target[len("assert:"):]))
        e, cov = parse_expr(s.args, W(s)), [s]
    elif target.startswith("mcallarg:") or target.startswith("callarg:"):
        kind, f, idx = target.split(":")
        cands = []
        for s, sc, bd in flat:
            if s.kind not in ("expr", "return") or (s.kind == "return" and not s.rhs):
                continue
            try:
                ex = stmt_expr(fn, s)
            except GenExprError:
                continue
            for x in subexprs2(ex):
                if kind == "mcallarg" and x[0] == "mcall" and x[2] == f:
                    cands.append((s, sc, bd, x[3]))
                if kind == "callarg" and x[0] == "call" and x[1] == ("path", f):
                    cands.append((s, sc, bd, x[2]))
        s, sc, bd, args = pick2(fn, spec, cands, "call", k)
        if int(idx) >= len(args):
            fail("%s: the call of %s has no argument %s" % (W(s), f, idx))
        e, cov = args[int(idx)], [s]
    else:
        fail("internal: unknown target kind %s" % target)
    if want_closure:
        cl = [x for x in subexprs2(e) if x[0] == "closure"]
        if len(cl) != 1:
            fail("%s: %d closures in the selected expression (exactly one expected)" % (where, len(cl)))
        e = cl[0]
    if not target.startswith("ifcond:"):
        for s in cov:
            s.covered = True
    return e, cov, sc, bd, want_ty


def parse_param(p):
    name, _, ty = p.partition(":")
    return name, (ty or None)


def build_definition2(fn, spec, translator=None, find_target=None, overridden=None):
    translator = translator or Translator2
    find_target = find_target or find_target2
    overridden = OVERRIDDEN2 if overridden is None else overridden
    where0 = "%s [%s]" % (fn.where, ", ".join(spec["path"]))
    block, scope, binders = find_region2(fn, spec["path"])
    expr, cov, sc, bd, want_ty = find_target(fn, spec, block, scope, binders)
    stmt = cov[0]
    where = "%s: `%s`" % (where0, stmt_text(fn, stmt))
    abstractions = [(parse_expr(tokenize(k, where), where), v) for k, v in spec["abs"].items()]
    whole = spec["target"] == "value" and not spec["path"]
    known = dict(bd)
    params = []
    if whole and not spec["params"]:
        params = list(fn.info["params"])
    for p in spec["params"]:
        name, ty = parse_param(p)
        if ty == "ret":
            ty = fn.info["ret"]
        if ty == "nat":
            if name in known and known[name] != "usize":
                fail("%s: parameter %s is a nat in the specification but a %s in the source" % (where, name, known[name]))
        elif ty is None:
            if name not in known:
                fail("%s: the type of parameter %s of %s is not declared by the source (signature, closure parameter, "
                     "loop over a slice): give it in the specification" % (where, name, spec["name"]))
            ty = known[name]
        params.append((name, ty))
    want = want_ty
    if expr[0] == "closure":
        body = expr[2]
        if body[0] == "block":
            mark_block(body[1])
            body = block_value(fn, body[1], where)
        n = 0
        fv = free_vars2(body, abstractions)
        for p, t in zip(expr[1], expr[3]):
            if p != "_" and p not in fv:
                continue
            if p == "_":
                n += 1
                params.append(("_unused%d" % n, "u64"))
            else:
                if not t:
                    fail("%s: closure parameter %s has no type annotation" % (where, p))
                params.append((p, rust_type(t)))
        expr = body
    elif whole:
        want = fn.info["ret"]
    for name, ty in params:
        if ty.startswith("opaque"):
            fail("%s: parameter %s has the type %s, which is outside the vocabulary" % (where, name, ty[7:]))
    pnames = {p for p, _ in params}
    for _, v in abstractions:
        if v not in pnames:
            fail("%s: abstraction parameter %s is not a parameter of %s" % (where, v, spec["name"]))
    needed = []

    def visit(e, visible):
        for v in sorted(free_vars2(e, abstractions)):
            if v in pnames or v in KNOWN_GLOBALS:
                continue
            defs = [s for s in visible if s.name == v]
            if not defs:
                fail("%s: `%s` is neither a parameter of %s, a local of the region nor a known constant" % (
                    where, v, spec["name"]))
            d = defs[-1]
            if d in needed:
                continue
            if d.rhs is None:
                fail("%s: local `%s` has no initializer" % (where, v))
            needed.append(d)
            d.ast2 = parse_expr(d.rhs, "%s: `%s`" % (where0, stmt_text(fn, d)))
            visit(d.ast2, visible[:visible.index(d)])
    visit(expr, sc)
    for s in sc:
        if s.kind == "let" and s.name in pnames:
            s.covered = True
            ent = (fn.file, fn_label(fn.impl, fn.name), stmt_text(fn, s))
            if ent not in overridden:
                overridden.append(ent)
    order = [s for s in sc if s in needed]
    for d in reversed(order):
        expr = ("let", d.name, d.ann, d.ast2, expr)
        d.covered = True
    tr = translator(where, dict(params), abstractions, fn.source, spec["hints"])
    body, ty = tr.tr(expr, want)
    if whole:
        if not (ty == want or ty == "lit" and is_int(want)):
            fail("%s: the body has type %s, the declared return type is %s" % (where, ty, want))
        ty = want
    cty = coq_type2(ty, where)
    binders_text = " ".join("(%s : %s)" % (cid(p), coq_type2(t, where)) for p, t in params)
    text = "Definition %s%s : %s :=\n  %s." % (spec["name"], (" " + binders_text) if binders_text else "", cty, body)
    guard_text = None
    if spec["guard"]:
        if not tr.guards:
            fail("%s: a shift check is requested for %s but the statement contains no shift" % (where, spec["name"]))
        if any(w is None for _, w in tr.guards):
            fail("%s: the width of a shifted value cannot be determined" % where)
        if "let " in body:
            fail("%s: shift checks of a definition with locals are outside the fragment" % where)
        g = " && ".join("(%s <? %d)" % (Translator.paren(s), w) for s, w in tr.guards)
        guard_text = "Definition %s_shift_ok%s : bool :=\n  %s." % (
            spec["name"], (" " + binders_text) if binders_text else "", g)
    if whole:
        key = (fn.file, fn.impl, fn.name)
        REGISTRY[key] = {"name": spec["name"], "params": [t for _, t in params], "ret": ty}
    return {"name": spec["name"], "text": text, "guard": guard_text, "file": spec["file"], "impl": fn.impl, "fn": fn.name,
            "path": spec["path"],
            "stmt": None if spec["target"] == "value" else
            (stmt_text(fn, stmt) + " .. to the end of the body") if spec["target"].startswith("valuefrom:") else stmt_text(fn, stmt),
            "lets": [stmt_text(fn, d) for d in order], "type": ty, "params": params, "calls": list(dict.fromkeys(tr.calls)),
            "shifts": list(tr.guards), "target": spec["target"],
            "src": " ".join(fn.src.split()) if spec["target"] == "value" and not spec["path"] else None}


# (file, fn label, local) -> reason ; (file, fn label, normalized statement prefix) -> reason
SKIPPED_LETS2 = {}
SKIPPED_STMTS2 = {}
# (file, fn label) -> reason: functions of the four files that are not translated at all
SKIPPED_FNS2 = {}
OVERRIDDEN2 = []


def check_coverage2(fn):
    """every let / assignment / non-trivial expression statement / value-returning `return` / `if` condition of a
    translated function is used by a generated definition or listed (with the reason) in SKIPPED_LETS2 /
    SKIPPED_STMTS2.  Conditions that only select a region (path elements) count as used."""
    label = fn_label(fn.impl, fn.name)
    used = set()

    def skipped(s):
        t = norm(s.toks)
        for (f, l, prefix), _ in SKIPPED_STMTS2.items():
            if f == fn.file and l == label and t.startswith(norm_str(prefix, fn.where)):
                used.add((f, l, prefix))
                return True
        return False

    def walk(b):
        for s in b:
            where = "%s: `%s`" % (fn.where, stmt_text(fn, s))
            if s.covered and s.kind != "if":
                continue
            if s.kind == "let":
                if (fn.file, label, s.name) in SKIPPED_LETS2:
                    used.add((fn.file, label, s.name))
                    continue
                fail("%s: local is not accounted for by any generated definition" % where)
            elif s.kind == "assign":
                if not skipped(s):
                    fail("%s: assignment is not accounted for by any generated definition" % where)
            elif s.kind in ("expr", "return"):
                if s.kind == "return" and not s.rhs:
                    continue
                if skipped(s):
                    continue
                e = stmt_expr(fn, s)
                bc = block_closures(fn, s)
                if bc:
                    for _, c in bc:
                        walk(c[2][1])
                elif not trivial_expr2(e):
                    fail("%s: statement is not accounted for by any generated definition" % where)
            elif s.kind == "for":
                walk(s.body)
            elif s.kind == "if":
                if s.covered:
                    continue
                if not getattr(s, "cond_covered", False) and not getattr(s, "selected", False) and not skipped(s):
                    for cond, _ in s.branches:
                        if cond is not None and not trivial_expr2(parse_expr(cond, where)):
                            fail("%s: the condition `%s` is not accounted for by any generated definition" % (where, norm(cond)))
                for _, body in s.branches:
                    walk(body)
    walk(fn.body)
    return used


def trivial_expr2(e):
    if e[0] in ("int", "path"):
        return True
    if e[0] == "un" and e[1] in ("*", "&"):
        return trivial_expr2(e[2])
    if e[0] == "field":
        return trivial_expr2(e[1])
    if e[0] == "call":
        return all(trivial_expr2(a) for a in e[2])
    if e[0] == "mcall":
        return trivial_expr2(e[1]) and all(trivial_expr2(a) for a in e[3])
    return False


# ----------------------------------------------------------------------------------------------
# part 2: what to translate

IC, IE = "impl Cube", "impl Ecube"
LC, LLC = "level_complexity", "large_level_complexity"


def _ops(prefix, file, trait, method, ty):
    """the four (two for Not) operator impls, each translated on its own"""
    out = []
    if trait == "Not":
        for s, sn in ((ty, "val"), ("&" + ty, "ref")):
            out.append(S2("%s_%s" % (prefix, sn), file, "impl Not for %s" % s, method, [], "value"))
        return out
    for s, sn in ((ty, "val"), ("&" + ty, "ref")):
        for r, rn in ((ty, "val"), ("&" + ty, "ref")):
            out.append(S2("%s_%s_%s" % (prefix, sn, rn), file, "impl %s<%s> for %s" % (trait, r, s), method, [], "value"))
    return out


SPECS2 = [
    # ---- sop/cube.rs
    S2("gx_cube_one", CUBE, IC, "one", [], "value"),
    S2("gx_cube_zero", CUBE, IC, "zero", [], "value"),
    S2("gx_cube_is_zero", CUBE, IC, "is_zero", [], "value"),
    S2("gx_cube_is_one", CUBE, IC, "is_one", [], "value"),
    S2("gx_cube_is_constant", CUBE, IC, "is_constant", [], "value"),
    S2("gx_cube_nth_var", CUBE, IC, "nth_var", [], "value", guard=True),
    S2("gx_cube_nth_var_inv", CUBE, IC, "nth_var_inv", [], "value", guard=True),
    S2("gx_cube_minterm", CUBE, IC, "minterm", [], "value"),
    S2("gx_cube_value", CUBE, IC, "value", [], "value"),
    S2("gx_cube_from_mask", CUBE, IC, "from_mask", [], "value"),
    S2("gx_cube_from_vars_pos_init", CUBE, IC, "from_vars", [], "let:pos"),
    S2("gx_cube_from_vars_pos_step", CUBE, IC, "from_vars", [], "assign:pos", ["pos:u32", "p"], guard=True),
    S2("gx_cube_from_vars_neg_init", CUBE, IC, "from_vars", [], "let:neg"),
    S2("gx_cube_from_vars_neg_step", CUBE, IC, "from_vars", [], "assign:neg", ["neg:u32", "p"], guard=True),
    S2("gx_cube_from_vars_finish", CUBE, IC, "from_vars", [], "valuefrom:c", ["pos:u32", "neg:u32"]),
    S2("gx_cube_num_lits", CUBE, IC, "num_lits", [], "value"),
    S2("gx_cube_num_gates", CUBE, IC, "num_gates", [], "value"),
    S2("gx_cube_and", CUBE, IC, "and", [], "value"),
] + _ops("gx_cube_bitand", CUBE, "BitAnd", "bitand", "Cube") + [
    S2("gx_cube_intersects", CUBE, IC, "intersects", [], "value"),
    S2("gx_cube_implies", CUBE, IC, "implies", [], "value"),
    S2("gx_cube_all_mx", CUBE, IC, "all", [], "let:mx", ["vars"], guard=True),
    # ---- sop/ecube.rs
    S2("gx_ecube_one", ECUBE, IE, "one", [], "value"),
    S2("gx_ecube_zero", ECUBE, IE, "zero", [], "value"),
    S2("gx_ecube_is_zero", ECUBE, IE, "is_zero", [], "value"),
    S2("gx_ecube_is_one", ECUBE, IE, "is_one", [], "value"),
    S2("gx_ecube_nth_var", ECUBE, IE, "nth_var", [], "value", guard=True),
    S2("gx_ecube_nth_var_inv", ECUBE, IE, "nth_var_inv", [], "value", guard=True),
    S2("gx_ecube_value", ECUBE, IE, "value", [], "value"),
    S2("gx_ecube_from_vars_init", ECUBE, IE, "from_vars", [], "let:v"),
    S2("gx_ecube_from_vars_step", ECUBE, IE, "from_vars", [], "assign:v", ["v:u32", "p"], guard=True),
    S2("gx_ecube_from_vars_finish", ECUBE, IE, "from_vars", [], "tail", ["v:u32", "xnor"]),
    S2("gx_ecube_num_lits", ECUBE, IE, "num_lits", [], "value"),
    S2("gx_ecube_num_gates", ECUBE, IE, "num_gates", [], "value"),
    S2("gx_ecube_all_mx", ECUBE, IE, "all", [], "let:mx", ["vars"], guard=True),
] + _ops("gx_ecube_not", ECUBE, "Not", "not", "Ecube") + _ops("gx_ecube_bitxor", ECUBE, "BitXor", "bitxor", "Ecube") + [
    # ---- bdd.rs
    S2("gx_bdd_level_lt6", BDD, "", LC, [], "assert:0", ["level:nat"]),
    S2("gx_bdd_level_ge1", BDD, "", LC, [], "assert:1", ["level:nat"]),
    S2("gx_bdd_shift", BDD, "", LC, [], "let:shift", ["level:nat"]),
    S2("gx_bdd_mask", BDD, "", LC, [], "let:mask", ["shift:usize"]),
    S2("gx_bdd_normalize", BDD, "", LC, [], "condassign:lut", ["lut:u64"]),
    S2("gx_bdd_window", BDD, "", LC, [], "assign:lut", ["lut:u64", "mask:u64"]),
    S2("gx_bdd_nonzero", BDD, "", LC, [], "ifcond:luts.push(lut);", ["lut:u64"]),
    S2("gx_bdd_advance", BDD, "", LC, [], "condassign:c", ["level:nat", "shift:usize", "c:u64"]),
    S2("gx_bdd_mid_shift", BDD, "", LC, [], "let:mid_shift", ["level:nat"]),
    S2("gx_bdd_mid_mask", BDD, "", LC, [], "let:mid_mask", ["mid_shift:usize"]),
    S2("gx_bdd_keep", BDD, "", LC, ["closure:retain"], "value", ["mid_shift:usize", "mid_mask:u64", "c"]),
    S2("gx_bdd_large_level_ge6", BDD, "", LLC, [], "assert:0", ["level:nat"]),
    S2("gx_bdd_large_nb", BDD, "", LLC, [], "let:nb", ["level:nat"]),
    S2("gx_bdd_large_norm_test", BDD, "", LLC, [], "ifcond:for t in &mut c { *t = !*t; }", ["w:u64"], {"c[0]": "w"}),
    S2("gx_bdd_large_not", BDD, "", LLC, ["if#0"], "assign:*t", ["t:u64"]),
    S2("gx_bdd_large_nonzero", BDD, "", LLC, [], "ifcond:luts.push(c);/closure"),
    S2("gx_bdd_large_mid_nb", BDD, "", LLC, [], "let:mid_nb", ["level:nat"]),
    S2("gx_bdd_large_opp", BDD, "", LLC, ["closure:retain"], "let:opp/closure", ["a:u64", "b:u64"], {"t.0": "a", "t.1": "b"}),
    S2("gx_bdd_large_lz", BDD, "", LLC, ["closure:retain"], "let:lz/closure"),
    S2("gx_bdd_large_hz", BDD, "", LLC, ["closure:retain"], "let:hz/closure"),
    S2("gx_bdd_large_copy", BDD, "", LLC, ["closure:retain"], "ifcond:return false;#1", ["opp:bool", "lz:bool", "hz:bool"]),
    # ---- canonization.rs
    S2("gx_gray_end", CANON, "", "generate_gray_flips", [], "let:end", ["nb_bits:nat"]),
    S2("gx_gray_pred", CANON, "", "generate_gray_flips", [], "let:pred", ["i:usize"]),
    S2("gx_gray_code", CANON, "", "generate_gray_flips", [], "let:gray", ["i:usize"]),
    S2("gx_gray_flip", CANON, "", "generate_gray_flips", [], "mcallarg:push:0", ["i:usize"]),
    S2("gx_gray_rollback", CANON, "", "generate_gray_flips", ["rollback"], "mcallarg:push:0", ["nb_bits:nat"]),
]
for _p, _f in (("gx_n_res", "n_canonization_res"), ("gx_npn_res", "npn_canonization_res")):
    SPECS2 += [
        S2(_p + "_ind_init", CANON, "", _f, [], "let:ind"),
        S2(_p + "_cur_init", CANON, "", _f, [], "let:cur_flip"),
        S2(_p + "_flip", CANON, "", _f, [], "assign:cur_flip#0", ["cur_flip:ret", "flip"], guard=True),
        S2(_p + "_out", CANON, "", _f, [], "assign:cur_flip#1", ["num_vars:nat", "cur_flip:ret"], guard=True),
        S2(_p + "_hit", CANON, "", _f, [], "ifcond:return cur_flip;", ["ind:usize", "best_ind"]),
        S2(_p + "_next_ind", CANON, "", _f, [], "assign:ind", ["ind:usize"]),
    ]
SPECS2 += [
    S2("gx_p_ind_best_init", CANON, "", "p_canonization_ind", [], "let:best_ind", ["all_swaps"]),
    S2("gx_n_ind_best_init", CANON, "", "n_canonization_ind", [], "let:best_ind", ["all_flips"]),
    S2("gx_npn_ind_best_init", CANON, "", "npn_canonization_ind", [], "let:best_ind", ["all_swaps", "all_flips"]),
]

_CONTAINER = "container of the results (a list in the model)"
SKIPPED_LETS2.update({
    (BDD, "fn " + LC, "luts"): _CONTAINER,
    (BDD, "fn " + LLC, "luts"): _CONTAINER,
    (BDD, "fn " + LLC, "c"): "slice copy table[i..i + nb].to_vec() (firstn/skipn in the model: `groups`)",
    (BDD, "fn " + LLC, "h"): "sub-slice &c[mid_nb..] (skipn in the model)",
    (BDD, "fn " + LLC, "l"): "sub-slice &c[..mid_nb] (firstn in the model)",
    (CANON, "fn generate_gray_flips", "flips"): _CONTAINER,
    (CANON, "fn npn_canonization_res", "swp"): "index of the adjacent transposition (perm_swap in the model)",
})
SKIPPED_STMTS2.update({
    (CUBE, IC + " :: fn all", "(0..mx)"): "iterator chain (flat_map / map / filter over ranges; lists in the model)",
    (ECUBE, IE + " :: fn all", "(0..mx)"): "iterator chain (flat_map / map over ranges; lists in the model)",
    (BDD, "fn " + LLC, "if l == h"): "comparison of two slices (list_eq_dec in the model)",
    (CANON, "fn npn_canonization_res", "res_perm[i] = i as u8"): "identity permutation (identity_perm in the model)",
    (CANON, "fn npn_canonization_res", "res_perm.swap(swp, swp + 1)"): "adjacent transposition (perm_swap in the model)",
})
# functions of which only the listed statements are translated (no coverage check of the rest of the body)
PARTIAL_FNS2 = {
    (CANON, "fn p_canonization_ind"): "only the initial certificate index (the walk is calls of kernels and cmp)",
    (CANON, "fn n_canonization_ind"): "only the initial certificate index (the walk is calls of kernels and cmp)",
    (CANON, "fn npn_canonization_ind"): "only the initial certificate index (the walk is calls of kernels and cmp)",
}
_IT = "iterator over the set bits, `(0..32).filter(|v| (x >> v & 1) != 0)` (bits_of by N.testbit in the model)"
_LUT = "loop over the assignments calling value() of the cube and of a Lut (forallb over `assignments` in the model)"
_FMT = "text output (write!/format! with string literals; Model cube_display/ecube_display, property C16)"
SKIPPED_FNS2.update({
    (CUBE, IC + " :: fn pos_vars"): _IT,
    (CUBE, IC + " :: fn neg_vars"): _IT,
    (CUBE, IC + " :: fn implies_lut"): _LUT,
    (CUBE, "impl fmt::Display for Cube :: fn fmt"): _FMT,
    (ECUBE, IE + " :: fn vars"): _IT,
    (ECUBE, IE + " :: fn implies_lut"): _LUT,
    (ECUBE, "impl fmt::Display for Ecube :: fn fmt"): _FMT,
    (BDD, "fn table_complexity"): "sum of calls of the two level functions over ranges (sumM over seq in the model)",
    (CANON, "fn find_permutation_swap"): "comparisons of vector elements, no word expression",
    (CANON, "fn check_permutation_swap"): "assertions on vector elements, no word expression",
    (CANON, "fn generate_single_swap_permutations"): "vector insertions, no word expression",
    (CANON, "fn generate_swaps"): "calls only",
    (CANON, "fn p_canonization_res"): "permutation bookkeeping (identity_perm / perm_swap in the model), no word expression",
    (CANON, "fn p_canonization"): "dispatch on num_vars, calls only",
    (CANON, "fn n_canonization"): "dispatch on num_vars, calls only",
    (CANON, "fn npn_canonization"): "dispatch on num_vars, calls only",
    (CANON, "fn verif_sequences"): "verification hook (cfg(volute_verif)), calls only",
})
# pieces of the model that correspond to translated Rust statements but are shaped too differently for a tie by
# conversion; they are listed in the trailer of Exprs2.v and in Proofs/ExprsTie2.v
NOT_TIED2 = [
    "bdd.rs level_complexity: the loop head `(0..64).step_by(shift)` - the model takes count := 2^(5 - level) windows; "
    "ExprsTie2.tie_bdd_window_count proves 2^(5 - level) = 64 / gx_bdd_shift level for 1 <= level < 6, the literals 0 and 64 "
    "of the range are not read from the source",
    "bdd.rs large_level_complexity: slicing (table[i..i + nb], &c[mid_nb..], &c[..mid_nb]), `l == h` on slices, the loop "
    "head `(0..table.len()).step_by(nb)`, `std::iter::zip(l, h).all(..)` / `.iter().all(..)` / `.iter().any(..)` themselves "
    "(only their closures are translated); nb and mid_nb are nat powers in the model (tie through N.of_nat)",
    "canonization.rs generate_gray_flips: the range `1..end` (seq 1 (2^nb_bits - 1) in the model); the model does not "
    "truncate the pushed values to u8 (ties under the hypothesis that the value fits)",
    "canonization.rs *_canonization_res: the model unrolls `for _ in 0..2` (flip_res_step); ties restate it with the "
    "generated updates",
]


def generate2():
    del OVERRIDDEN2[:]
    REGISTRY.clear()
    SOURCES2.clear()
    STRUCT_NAMES.clear()
    STRUCT_NAMES.update(STRUCT_VOCAB)
    for rel in FILES2:
        SOURCES2[rel] = Source2(rel)
    fn_cache = {}
    defs = []
    for spec in SPECS2:
        src = SOURCES2[spec["file"]]
        key = (spec["impl"], spec["fn"])
        if key not in src.fns:
            fail("%s: %s not found" % (spec["file"], fn_label(*key)))
        ck = (spec["file"],) + key
        if ck not in fn_cache:
            fn_cache[ck] = Fn2(src, key)
        defs.append(build_definition2(fn_cache[ck], spec))
    used = set()
    for ck, fn in fn_cache.items():
        if (ck[0], fn_label(ck[1], ck[2])) in PARTIAL_FNS2:
            continue
        used |= check_coverage2(fn)
    # stale lists fail; every function of the four files is translated, partial or listed
    for k in list(SKIPPED_LETS2) + list(SKIPPED_STMTS2):
        if k not in used:
            fail("the skip list names %s: %s `%s`, which does not exist (any more) or is translated" % k)
    for rel in FILES2:
        for key in SOURCES2[rel].order:
            lab = (rel, fn_label(*key))
            listed = lab in SKIPPED_FNS2
            translated = (rel,) + key in fn_cache
            if listed == translated:
                fail("%s: %s is %s" % (rel, lab[1], "both translated and listed as skipped" if listed else
                                       "neither translated nor listed in SKIPPED_FNS2"))
    for lab in list(SKIPPED_FNS2) + list(PARTIAL_FNS2):
        if not any(lab == (rel, fn_label(*key)) for rel in FILES2 for key in SOURCES2[rel].order):
            fail("the skip list names %s: %s, which does not exist" % lab)

    L = []
    L.append("(* GENERATED by gen/gen_exprs.py from src/sop/cube.rs, src/sop/ecube.rs, src/bdd.rs and src/canonization.rs -")
    L.append("   do not edit.  Expressions of the two-level forms, of the BDD kernel and of the certificate reconstruction,")
    L.append("   translated from the Rust source text on every run and typed by the declared Rust types.")
    L.append("   Proofs/ExprsTie2.v proves that each of them is the expression of the hand-written model. *)")
    L.append("From Coq Require Import List NArith Arith Bool.")
    L.append("From V Require Import Base.Res Gen.Tables Model.Kernels Model.TwoLevel.")
    L.append("From V Require Model.Canon.")
    L.append("Import ListNotations.")
    L.append("Open Scope N_scope.")
    L.append("")
    L.append("(* `e as u8` *)")
    L.append("Definition wrap8 (x : N) : N := N.land x 0xff.")
    L.append("")
    for d in defs:
        regime = (" [" + ", ".join(d["path"]) + "]") if d["path"] else ""
        loc = "%s: %s%s" % (d["file"].replace("src/", ""), fn_label(d["impl"], d["fn"]), regime)
        if d["src"] is not None:
            cm = "(* %s, whole body\n   `%s`" % (loc, coq_comment(d["src"]))
        elif d["stmt"] is None:
            cm = "(* %s, the region as one value (target %s)" % (loc, d["target"])
        else:
            cm = "(* %s, `%s`" % (loc, coq_comment(d["stmt"]))
        if d["lets"]:
            cm += "\n   with " + "  ".join("`%s`" % coq_comment(x) for x in d["lets"])
        if d["calls"]:
            cm += "\n   forwards to " + ", ".join(d["calls"])
        cm += " *)"
        L.append(cm)
        L.append(d["text"])
        if d["guard"]:
            L.append("(* dev-profile checks of the shift amounts of the statement above (amount < width of the shifted type) *)")
            L.append(d["guard"])
        L.append("")
    L.append("(* functions of these files that are NOT translated:")
    for (file, lab), why in sorted(SKIPPED_FNS2.items()):
        L.append("   %s: %s - %s" % (file.replace("src/", ""), lab, why))
    L.append("   functions of which only the statements above are translated:")
    for (file, lab), why in sorted(PARTIAL_FNS2.items()):
        L.append("   %s: %s - %s" % (file.replace("src/", ""), lab, why))
    L.append("   statements and locals of the translated functions that are not translated:")
    for (file, lab, name), why in sorted(SKIPPED_LETS2.items()):
        L.append("   %s: %s `let %s` - %s" % (file.replace("src/", ""), lab, name, why))
    for (file, lab, st), why in sorted(SKIPPED_STMTS2.items()):
        L.append("   %s: %s `%s ..` - %s" % (file.replace("src/", ""), lab, coq_comment(st), why))
    L.append("   (macros other than the translated assert! arguments - panic!(), assert_eq! - are recorded by Gen/Guards.v)")
    L.append("   locals over which a definition above is abstracted (they are parameters there):")
    for file, lab, st in OVERRIDDEN2:
        L.append("   %s: %s `%s`" % (file.replace("src/", ""), lab, coq_comment(st)))
    L.append("   shifts whose dev-profile amount check is NOT emitted (the model has no check there either):")
    for d in defs:
        sh = [(a, w) for a, w in d["shifts"] if not (a.isdigit() and w and int(a) < w)]
        if sh and not d["guard"]:
            L.append("   %s: %s" % (d["name"], ", ".join("%s < %s" % (a, w if w else "width of an untyped literal") for a, w in sh)))
    L.append("   model pieces shaped differently from the Rust statements (see Proofs/ExprsTie2.v):")
    for t in NOT_TIED2:
        L.append("   - " + coq_comment(t))
    L.append("*)")
    L.append("")
    return "\n".join(L), defs


# ==============================================================================================
# PART 3: what parts 1 left to the hand-written model in src/operations.rs and src/decomposition.rs
#         ->  coq/Gen/Exprs3.v   (tied to the model by Proofs/ExprsTie3.v)
#
#   * the whole-word regimes (variable index above 5) of flip / cofactor0 / cofactor1 / from_cofactors / swap and of
#     input_property_helper: the stride lets, the loop guard as a boolean function of the loop index, the index
#     expressions of the words read and written, the value that is stored (a read `table[e]` of a slice parameter is
#     `nthN table (N.to_nat e)`), the arguments of `table.swap(a, b)`, the loop heads `0..table.len()`
#   * the regime selectors themselves (`ind <= 5`, `i <= 5`, `j <= 5`, `ind1 == ind2`, `k == 0`, `k > num_vars`)
#   * fill_symmetric word by word, the constants of fill_parity / fill_majority / swap_adjacent_inplace, fill_one / fill_zero
#   * table_size, hex_str_size (whole bodies), the widths of to_hex / to_bin, the arithmetic of fill_hex
#   * the control flow of next_inplace
# The machinery is the one of part 2 (typed by the declared Rust types); parts 1 and 2 are left as they are, their
# output is byte-identical.  Additions of part 3:
#   x[e] on a slice parameter -> nthN x (N.to_nat e)      x.len() -> length x  (a nat; N.of_nat where a usize is needed)
#   num_vars_mask(e) -> num_vars_mask e (model vocabulary, tied by ExprsTie.tie_num_vars_mask)
#   usize::count_ones(e) -> popcount e      f(e) for a function of the same file translated as a whole -> gx_f e
#   lo..hi (loop head) -> seq lo (hi - lo)      T.iter().enumerate() on a constant table -> combine (map N.of_nat (seq 0 (length T))) T
#   &str parameters are byte lists (as in the model);  `match` statements are parsed (arms are selected like branches)
# New targets (with `#k` = k-th candidate in source order):
#   cond                  the condition of the k-th `if` / `else if` of the region (not the body: an edit of `==` into `!=`
#                         changes the generated definition instead of making the statement impossible to find)
#   store:<x>             the value stored by the k-th assignment `x[..] = e` / `x[..] op= e`
#   storeidx:<x>          the index of the place written by that assignment
#   mcallarg:<x>.<m>:<i>  argument i of the unique call `x.m(..)`
#   ret                   the value of the k-th `return e;`
#   forhead               the iterated expression of the k-th `for`
#   rangelo:<v> rangehi:<v>   the bounds of `let v = &x[lo..hi];`
# Coverage: in every function part 3 touches, each let / assignment / written index / non-trivial statement / `if`
# condition / loop head must be accounted for by a definition of part 3, by a definition of part 1 (same statement of
# the same source text) or by an entry of the skip lists below, which are printed in the trailer of Exprs3.v; every fn of
# the two files is translated (part 1 or 3) or listed in SKIPPED_FNS3.  Stale list entries fail.

FILES3 = (OPS, DEC)
SOURCES3 = {}
OVERRIDDEN3 = []
COQ_TYPE2.update({"seqnat": "list nat", "enum:u64": "list (N * N)"})
COUNT_ONES_PATHS = {"usize::count_ones", "u64::count_ones", "u32::count_ones"}


def S3(name, file, fn, path, target, params=(), guard=False):
    return {"name": name, "file": file, "impl": "", "fn": fn, "path": tuple(path), "target": target,
            "params": list(params), "abs": {}, "guard": guard, "hints": {}}


class Fn3(Fn2):
    def __init__(self, source, key):
        Fn2.__init__(self, source, key)
        info = dict(self.info)
        # strings are byte lists in the model
        info["params"] = [(n, "slice:u8" if t == "opaque:str" else t) for n, t in info["params"]]
        self.info = info


def for_binder3(fn, s, binders):
    """loop variables whose type follows from the loop head: ranges up to the length of a slice, enumerate over a slice
    parameter or a constant table, iteration over a slice parameter"""
    h = norm(s.head)
    known = dict(binders)

    def elem(x):
        if known.get(x, "").startswith("slice:"):
            return known[x][6:]
        return "u64" if x in TABLES_1D else None
    m = re.fullmatch(r"(\w+) in (?:\d+) \.\. (\w+) \. len \( \)", h)
    if m and elem(m.group(2)):
        return [(m.group(1), "usize")]
    m = re.fullmatch(r"\( (\w+) , (\w+) \) in (\w+) \. (?:iter|iter_mut) \( \)(?: \. rev \( \))? \. enumerate \( \)", h)
    if m and elem(m.group(3)):
        return [(m.group(1), "usize"), (m.group(2), elem(m.group(3)))]
    m = re.fullmatch(r"(\w+) in (\w+)(?: \. (?:iter|iter_mut) \( \))?(?: \. rev \( \))?", h)
    if m and elem(m.group(2)):
        return [(m.group(1), elem(m.group(2)))]
    return []


class Translator3(Translator2):
    def tr(self, e, want=None):
        if self.abstracted(e) is None:
            k = e[0]
            if k == "idx" and e[1][0] == "path" and self.env.get(e[1][1], "").startswith("slice:") and e[2][0] != "range":
                return "nthN %s %s" % (cid(e[1][1]), self.paren(self.coerce(e[2], "nat"))), self.env[e[1][1]][6:]
            if k == "range":
                if e[1] is None or e[2] is None or e[3]:
                    self.err("only half-open ranges `lo..hi` are in the vocabulary")
                lo, hi = self.paren(self.coerce(e[1], "nat")), self.paren(self.coerce(e[2], "nat"))
                return "seq %s (%s - %s)%%nat" % (lo, hi, lo), "seqnat"
            if k in ("tuple", "str", "char"):
                self.err("%s literal" % {"tuple": "unit / tuple", "str": "string", "char": "character"}[k])
        return Translator2.tr(self, e, want)

    def tr_mcall(self, e, want):
        recv, name, args = e[1], e[2], e[3]
        if name == "enumerate" and not args and recv[0] == "mcall" and recv[2] == "iter" and not recv[3] \
                and recv[1][0] == "path" and recv[1][1] in TABLES_1D:
            t = recv[1][1]
            return "combine (map N.of_nat (seq 0 (length %s))) %s" % (t, t), "enum:u64"
        if name == "len" and not args:
            text, ty = self.tr(recv, None)
            if ty.startswith("slice:"):
                return "length %s" % self.paren(text), "nat"
        return Translator2.tr_mcall(self, e, want)

    def tr_call(self, e, want):
        f, args = e[1], e[2]
        if f[0] == "path":
            name = f[1]
            if name == "num_vars_mask" and len(args) == 1:
                return "num_vars_mask %s" % self.paren(self.coerce(args[0], "nat")), "u64"
            if name in COUNT_ONES_PATHS and len(args) == 1:
                text, ty = self.tr(args[0], None)
                if ty not in INT_WIDTH:
                    self.err("`%s` of `%s` : %s" % (name, text, ty))
                return "popcount " + self.paren(text), "u32"
            key = (self.source.rel, "", name)
            if key in REGISTRY:
                return self.call_generated(key, list(args), "`%s`" % name)
        return Translator2.tr_call(self, e, want)


def find_target3(fn, spec, block, scope, binders):
    """the targets of part 3; everything else is a target of part 2"""
    target, k, _ = split_target(spec["target"])
    where = "%s [%s]" % (fn.where, ", ".join(spec["path"]))
    flat = flatten2(fn, block, scope, binders)

    def W(s):
        return "%s: `%s`" % (where, stmt_text(fn, s))
    if target == "cond":
        cands = []
        for s, sc, bd in flat:
            if s.kind == "if" and not getattr(s, "is_match", False):
                for bi, (cond, _) in enumerate(s.branches):
                    if cond is not None:
                        cands.append((s, sc, bd, bi))
        s, sc, bd, bi = pick2(fn, spec, cands, "condition", k)
        s.conds_covered = getattr(s, "conds_covered", set()) | {bi}
        spec["_label"] = "%sif %s" % ("else " if bi else "", text_of(fn.src, s.branches[bi][0]))
        return parse_expr(s.branches[bi][0], W(s)), [s], sc, bd, "bool"
    if target.startswith("store:") or target.startswith("storeidx:"):
        kind, tbl = target.split(":")
        cands = []
        for s, sc, bd in flat:
            if s.kind == "assign":
                lhs = parse_expr(s.lhs, W(s))
                if lhs[0] == "idx" and lhs[1] == ("path", tbl):
                    cands.append((s, sc, bd, lhs))
        s, sc, bd, lhs = pick2(fn, spec, cands, "assignment to an element of", k)
        if kind == "storeidx":
            s.idx_covered = True
            spec["_label"] = "the index written by `%s`" % stmt_text(fn, s)
            return lhs[2], [s], sc, bd, None
        s.covered = True
        return expand_assign(s, W(s)), [s], sc, bd, None
    if target.startswith("mcallarg:") and "." in target.split(":")[1]:
        _, rm, idx = target.split(":")
        recv, meth = rm.split(".")
        cands = []
        for s, sc, bd in flat:
            if s.kind != "expr":
                continue
            try:
                ex = stmt_expr(fn, s)
            except GenExprError:
                continue
            for x in subexprs2(ex):
                if x[0] == "mcall" and x[2] == meth and x[1] == ("path", recv):
                    cands.append((s, sc, bd, x[3]))
        s, sc, bd, args = pick2(fn, spec, cands, "call", k)
        if int(idx) >= len(args):
            fail("%s: the call of %s has no argument %s" % (W(s), rm, idx))
        s.args_covered = getattr(s, "args_covered", set()) | {int(idx)}
        if len(s.args_covered) == len(args):
            s.covered = True
        spec["_label"] = "argument %s of `%s`" % (idx, stmt_text(fn, s))
        return args[int(idx)], [s], sc, bd, None
    if target == "ret":
        cands = [c for c in flat if c[0].kind == "return" and c[0].rhs]
        s, sc, bd = pick2(fn, spec, cands, "return", k)
        s.covered = True
        return parse_expr(s.rhs, W(s)), [s], sc, bd, None
    if target == "forhead":
        cands = [c for c in flat if c[0].kind == "for" and c[0].toks[0].text == "for"]
        s, sc, bd = pick2(fn, spec, cands, "loop", k)
        j = find_at_depth0(s.head, 0, {"in"}, W(s))
        if j >= len(s.head):
            fail("%s: `for` without `in`" % W(s))
        s.head_covered = True
        spec["_label"] = "for %s" % text_of(fn.src, s.head)
        return parse_expr(s.head[j + 1:], W(s)), [s], sc, bd, None
    if target.startswith("rangelo:") or target.startswith("rangehi:"):
        kind, name = target.split(":")
        cands = [c for c in flat if c[0].kind == "let" and c[0].name == name]
        s, sc, bd = pick2(fn, spec, cands, "local", k)
        x = parse_expr(s.rhs, W(s)) if s.rhs else ("tuple",)
        while x[0] == "un" and x[1] == "&":
            x = x[2]
        if not (x[0] == "idx" and x[2][0] == "range" and x[2][1] is not None and x[2][2] is not None and not x[2][3]):
            fail("%s: not a sub-slice `&x[lo..hi]`" % W(s))
        s.covered = True
        spec["_label"] = "the %s bound of `%s`" % ("lower" if kind == "rangelo" else "upper", stmt_text(fn, s))
        return x[2][1 if kind == "rangelo" else 2], [s], sc, bd, None
    return find_target2(fn, spec, block, scope, binders)


def trivial_expr3(e):
    if e[0] in ("int", "path", "tuple"):
        return True
    if e[0] == "un" and e[1] in ("*", "&"):
        return trivial_expr3(e[2])
    if e[0] == "field":
        return trivial_expr3(e[1])
    if e[0] == "call":
        return all(trivial_expr3(a) for a in e[2])
    if e[0] == "mcall":
        return trivial_expr3(e[1]) and all(trivial_expr3(a) for a in e[3])
    return False


def part1_covered(fn):
    """token offsets of the statements of this function that a definition of part 1 accounts for"""
    f1 = FN_CACHE1.get((fn.file, fn.name)) if not fn.impl else None
    out = set()
    if f1 is None:
        return out
    if f1.src != fn.src:
        fail("%s: parts 1 and 3 do not read the same source text" % fn.where)

    def walk(b):
        for s in b:
            if s.covered:
                out.add(s.toks[0].start)
            if s.kind == "for":
                walk(s.body)
            elif s.kind == "if":
                for _, body in s.branches:
                    walk(body)
    walk(f1.body)
    return out


def check_coverage3(fn):
    label = fn_label(fn.impl, fn.name)
    p1 = part1_covered(fn)
    used = set()

    def skipped(s):
        t = norm(s.toks)
        for (f, l, prefix) in SKIPPED_STMTS3:
            if f == fn.file and l == label and t.startswith(norm_str(prefix, fn.where)):
                used.add((f, l, prefix))
                return True
        return False

    def walk(b):
        for s in b:
            where = "%s: `%s`" % (fn.where, stmt_text(fn, s))
            ok1 = s.toks[0].start in p1
            if s.kind == "let":
                if s.covered or ok1:
                    continue
                if (fn.file, label, s.name) in SKIPPED_LETS3:
                    used.add((fn.file, label, s.name))
                    continue
                fail("%s: local is not accounted for by any generated definition" % where)
            elif s.kind == "assign":
                if not (s.covered or ok1 or skipped(s)):
                    fail("%s: assignment is not accounted for by any generated definition" % where)
                lhs = parse_expr(s.lhs, where)
                if lhs[0] == "idx" and not trivial_expr3(lhs[2]) and not getattr(s, "idx_covered", False) and not skipped(s):
                    fail("%s: the index of the written place is not accounted for by any generated definition" % where)
            elif s.kind in ("expr", "return"):
                if (s.kind == "return" and not s.rhs) or s.covered or ok1 or skipped(s):
                    continue
                if not trivial_expr3(stmt_expr(fn, s)):
                    fail("%s: statement is not accounted for by any generated definition" % where)
            elif s.kind == "for":
                if not getattr(s, "head_covered", False) and not skipped(s):
                    fail("%s: the loop head `%s` is not accounted for by any generated definition" % (
                        fn.where, text_of(fn.src, s.head)))
                walk(s.body)
            elif s.kind == "if":
                if s.covered:
                    continue
                if getattr(s, "is_match", False):
                    if not trivial_expr3(parse_expr(s.scrutinee, where)):
                        fail("%s: the scrutinee of the `match` is not accounted for" % where)
                else:
                    done = getattr(s, "conds_covered", set())
                    for bi, (cond, _) in enumerate(s.branches):
                        if cond is not None and bi not in done and not trivial_expr3(parse_expr(cond, where)) \
                                and not skipped(s):
                            fail("%s: the condition `%s` is not accounted for by any generated definition" % (
                                fn.where, norm(cond)))
                for _, body in s.branches:
                    walk(body)
    walk(fn.body)
    return used


def _high(prefix, fn, inner=("else",), stride="stride", loopvar="i"):
    """stride, loop head and guard of a whole-word regime `let stride = 1 << (ind - 6); for i in 0..table.len() { if g {`"""
    return [
        S3(prefix + "_stride", OPS if fn != "input_property_helper" else DEC, fn, inner, "let:" + stride, ["ind"]),
        S3(prefix + "_range", OPS if fn != "input_property_helper" else DEC, fn, inner, "forhead", ["table"]),
        S3(prefix + "_guard", OPS if fn != "input_property_helper" else DEC, fn, inner, "cond", [stride + ":usize", loopvar]),
    ]


SPECS3 = [
    # ---- sizes and constants
    S3("gx_table_size", OPS, "table_size", [], "value"),
    S3("gx_fill_one_word", OPS, "fill_one", [], "assign:*t", ["num_vars:nat"]),
    S3("gx_fill_zero_word", OPS, "fill_zero", [], "assign:*t"),
    S3("gx_fill_nth_var_low", OPS, "fill_nth_var", [], "cond", ["ind"]),
    # ---- fill_symmetric, word by word
    S3("gx_sym_cnt", OPS, "fill_symmetric", [], "let:cnt", ["i"]),
    S3("gx_sym_init", OPS, "fill_symmetric", [], "assign:*t#0"),
    S3("gx_sym_masks", OPS, "fill_symmetric", [], "forhead#1"),
    S3("gx_sym_test", OPS, "fill_symmetric", [], "cond", ["count_values", "cnt:usize", "c"], guard=True),
    S3("gx_sym_or", OPS, "fill_symmetric", ["if#0"], "assign:*t", ["t", "mask"]),
    S3("gx_sym_final", OPS, "fill_symmetric", [], "assign:*t#1", ["num_vars:nat", "t"]),
    S3("gx_parity_count_values", OPS, "fill_parity", [], "callarg:fill_symmetric:2"),
    S3("gx_threshold_is_zero", OPS, "fill_threshold", [], "cond#0", ["k"]),
    S3("gx_threshold_above", OPS, "fill_threshold", [], "cond#1", ["num_vars", "k"]),
    S3("gx_majority_k", OPS, "fill_majority", [], "callarg:fill_threshold:2", ["num_vars"]),
    # ---- text: widths and the arithmetic of fill_hex
    S3("gx_hex_str_size", OPS, "hex_str_size", [], "value"),
    S3("gx_to_hex_width", OPS, "to_hex", [], "let:width", ["num_vars"]),
    S3("gx_to_bin_width", OPS, "to_bin", [], "let:width", ["num_vars"]),
    S3("gx_fill_hex_width", OPS, "fill_hex", [], "let:width", ["num_vars"]),
    S3("gx_fill_hex_len_bad", OPS, "fill_hex", [], "cond#1", ["table", "s", "width:usize"]),
    S3("gx_fill_hex_chunk_lo", OPS, "fill_hex", [], "rangelo:ss", ["width:usize", "i"]),
    S3("gx_fill_hex_chunk_hi", OPS, "fill_hex", [], "rangehi:ss", ["width:usize", "i"]),
    S3("gx_fill_hex_overflow", OPS, "fill_hex", ["Ok(v)"], "cond", ["num_vars:nat", "v:u64"]),
    S3("gx_fill_hex_word", OPS, "fill_hex", ["Ok(v)"], "assign:*t", ["v:u64"]),
    # ---- swap_inplace: regime selectors, the cross regime (j <= 5 < i), the all-high regime
    S3("gx_swap_same", OPS, "swap_inplace", [], "cond#0", ["ind1", "ind2"]),
    S3("gx_swap_low", OPS, "swap_inplace", [], "cond#1", ["i:usize"]),
    S3("gx_swap_cross", OPS, "swap_inplace", [], "cond#2", ["j:usize"]),
    S3("gx_swap_cross_mi", OPS, "swap_inplace", ["j <= 5"], "let:mi", ["i:usize"]),
    S3("gx_swap_cross_range", OPS, "swap_inplace", ["j <= 5"], "forhead", ["table"]),
    S3("gx_swap_cross_guard", OPS, "swap_inplace", ["j <= 5"], "cond", ["mi:usize", "k"]),
    S3("gx_swap_cross_load0", OPS, "swap_inplace", ["j <= 5", "if#0"], "let:t0", ["table", "mi:usize", "k"]),
    S3("gx_swap_cross_load1", OPS, "swap_inplace", ["j <= 5", "if#0"], "let:t1", ["table", "mi:usize", "k"]),
    S3("gx_swap_cross_dst_lo", OPS, "swap_inplace", ["j <= 5", "if#0"], "storeidx:table#0", ["mi:usize", "k"]),
    S3("gx_swap_cross_dst_hi", OPS, "swap_inplace", ["j <= 5", "if#0"], "storeidx:table#1", ["mi:usize", "k"]),
    S3("gx_swap_high_mi", OPS, "swap_inplace", ["else"], "let:mi", ["i:usize"]),
    S3("gx_swap_high_mj", OPS, "swap_inplace", ["else"], "let:mj", ["j:usize"]),
    S3("gx_swap_high_range", OPS, "swap_inplace", ["else"], "forhead", ["table"]),
    S3("gx_swap_high_guard", OPS, "swap_inplace", ["else"], "cond", ["mi:usize", "mj:usize", "k"]),
    S3("gx_swap_high_a", OPS, "swap_inplace", ["else", "if#0"], "mcallarg:table.swap:0", ["mi:usize", "mj:usize", "k"]),
    S3("gx_swap_high_b", OPS, "swap_inplace", ["else", "if#0"], "mcallarg:table.swap:1", ["mi:usize", "mj:usize", "k"]),
    S3("gx_swap_adjacent_other", OPS, "swap_adjacent_inplace", [], "callarg:swap_inplace:3", ["ind"]),
    # ---- flip / cofactors / from_cofactors: the whole-word regimes
    S3("gx_flip_low", OPS, "flip_inplace", [], "cond", ["ind"]),
] + _high("gx_flip_high", "flip_inplace") + [
    S3("gx_flip_high_a", OPS, "flip_inplace", ["else", "if#0"], "mcallarg:table.swap:0", ["stride:usize", "i"]),
    S3("gx_flip_high_b", OPS, "flip_inplace", ["else", "if#0"], "mcallarg:table.swap:1", ["stride:usize", "i"]),
    S3("gx_cof0_low", OPS, "cofactor0_inplace", [], "cond", ["ind"]),
] + _high("gx_cof0_high", "cofactor0_inplace") + [
    S3("gx_cof0_high_dst", OPS, "cofactor0_inplace", ["else", "if#0"], "storeidx:table", ["stride:usize", "i"]),
    S3("gx_cof0_high_val", OPS, "cofactor0_inplace", ["else", "if#0"], "store:table", ["table", "stride:usize", "i"]),
    S3("gx_cof1_low", OPS, "cofactor1_inplace", [], "cond", ["ind"]),
] + _high("gx_cof1_high", "cofactor1_inplace") + [
    S3("gx_cof1_high_dst", OPS, "cofactor1_inplace", ["else", "if#0"], "storeidx:table", ["stride:usize", "i"]),
    S3("gx_cof1_high_val", OPS, "cofactor1_inplace", ["else", "if#0"], "store:table", ["table", "stride:usize", "i"]),
    S3("gx_from_cof_low", OPS, "from_cofactors_inplace", [], "cond", ["ind"]),
    S3("gx_from_cof_low_range", OPS, "from_cofactors_inplace", ["ind <= 5"], "forhead", ["table"]),
    S3("gx_from_cof_low_dst", OPS, "from_cofactors_inplace", ["ind <= 5"], "storeidx:table", ["i"]),
] + _high("gx_from_cof_high", "from_cofactors_inplace") + [
    S3("gx_from_cof_high_then_dst", OPS, "from_cofactors_inplace", ["else", "if#0"], "storeidx:table", ["stride:usize", "i"]),
    S3("gx_from_cof_high_then_val", OPS, "from_cofactors_inplace", ["else", "if#0"], "store:table", ["t0", "t1", "stride:usize", "i"]),
    S3("gx_from_cof_high_else_dst", OPS, "from_cofactors_inplace", ["else", "else"], "storeidx:table", ["stride:usize", "i"]),
    S3("gx_from_cof_high_else_val", OPS, "from_cofactors_inplace", ["else", "else"], "store:table", ["t0", "t1", "stride:usize", "i"]),
    # ---- next_inplace: control flow
    S3("gx_next_stop", OPS, "next_inplace", [], "cond", ["t"]),
    S3("gx_next_hit", OPS, "next_inplace", ["if#0"], "ret"),
    S3("gx_next_miss", OPS, "next_inplace", [], "tail"),
    # ---- decomposition.rs: input_property_helper
    S3("gx_helper_init", DEC, "input_property_helper", [], "let:ret"),
    S3("gx_helper_low", DEC, "input_property_helper", [], "cond", ["ind"]),
] + _high("gx_helper_high", "input_property_helper") + [
    S3("gx_helper_high_c0", DEC, "input_property_helper", ["else", "if#0"], "let:c0", ["table", "stride:usize", "i"]),
    S3("gx_helper_high_c1", DEC, "input_property_helper", ["else", "if#0"], "let:c1", ["table", "stride:usize", "i"]),
]

_INPLACE = "in-place iteration over the words of the table (map / mapM / mapi over the list in the model)"
_PAIRS = "in-place iteration over the zipped tables (map2 in the model)"
SKIPPED_LETS3 = {
    (OPS, "fn to_hex", "s"): "the output string (a byte list built by concat in the model)",
    (OPS, "fn to_bin", "s"): "the output string (a byte list built by concat in the model)",
}
# notes printed with the locals over which a definition is abstracted
OVERRIDDEN_NOTES3 = {
    (OPS, "fn fill_hex", "v"): "u64::from_str_radix(ss, 16), library parse of one chunk (parse_hex in the model)",
    (OPS, "fn swap_inplace", "i"): "gx_swap_max of Gen/Exprs.v",
    (OPS, "fn swap_inplace", "j"): "gx_swap_min of Gen/Exprs.v",
}
SKIPPED_STMTS3 = {
    (OPS, "fn fill_one", "for t in table"): _INPLACE,
    (OPS, "fn fill_zero", "for t in table"): _INPLACE,
    (OPS, "fn fill_nth_var", "for t in table"): _INPLACE,
    (OPS, "fn fill_nth_var", "for (i, t) in table.iter_mut().enumerate()"): _INPLACE,
    (OPS, "fn fill_symmetric", "for (i, t) in table.iter_mut().enumerate()"): _INPLACE,
    (OPS, "fn to_hex", "for t in table.iter().rev()"): "iteration over the reversed table (map over rev t in the model)",
    (OPS, "fn to_hex", "s.push_str("): "format!(\"{:0width$x}\", t): text formatting (pad_radix 16 in the model)",
    (OPS, "fn to_bin", "for t in table.iter().rev()"): "iteration over the reversed table (map over rev t in the model)",
    (OPS, "fn to_bin", "s.push_str("): "format!(\"{:0width$b}\", t): text formatting (pad_radix 2 in the model)",
    (OPS, "fn fill_hex", "if !s.bytes()"): "iterator over the bytes and u8::is_ascii_hexdigit (forallb is_hex_digit in the model)",
    (OPS, "fn fill_hex", "for (i, t) in table.iter_mut().rev().enumerate()"):
        "iteration over the reversed table (chunks / all_some / rev in the model)",
    (OPS, "fn swap_inplace", "for t in table"): _INPLACE,
    (OPS, "fn flip_inplace", "for t in table"): _INPLACE,
    (OPS, "fn cofactor0_inplace", "for t in table"): _INPLACE,
    (OPS, "fn cofactor1_inplace", "for t in table"): _INPLACE,
    (OPS, "fn next_inplace", "for t in table"): "in-place iteration with early return (the recursion of next_words in the model)",
    (DEC, "fn input_property_helper", "for t in table"): "iteration over the words of the table (fold_left in the model)",
}
SKIPPED_FNS3 = {
    (OPS, "fn fill_random"): "random source (cfg(feature = \"rand\"); an explicit stream in the model)",
    (OPS, "fn cmp"): "iterator comparison `table1.iter().rev().cmp(table2.iter().rev())` (lex_cmp on the reversed lists in the model)",
    (OPS, "fn fmt_hex"): "write! with a string literal (fmt_wrap in the model, property C08/C16)",
    (OPS, "fn fmt_bin"): "write! with a string literal (fmt_wrap in the model, property C08/C16)",
    (DEC, "impl DecompositionType :: fn is_trivial"): "membership in an array of enum values",
    (DEC, "impl DecompositionType :: fn is_and_type"): "membership in an array of enum values",
    (DEC, "impl DecompositionType :: fn is_xor_type"): "membership in an array of enum values",
    (DEC, "impl DecompositionType :: fn is_simple_gate"): "membership in an array of enum values",
    (DEC, "fn top_decomposition"): "calls of the input_* predicates and a chain of tests on their boolean results, enum values",
}
NOT_TIED3 = [
    "loop heads other than `0..table.len()` and COUNT_MASKS.iter().enumerate() (the `for` statements listed above): the "
    "model iterates over the list, the direction (`.rev()`) and the pairing (`.zip`) are hand-written there",
    "to_hex / to_bin: the format strings `{:0width$x}` / `{:0width$b}` (radix and zero padding are pad_radix 16 / pad_radix 2 "
    "of the model, property C08); only the width expressions are generated",
    "fill_hex: `s.bytes().all(|b| b.is_ascii_hexdigit())`, `u64::from_str_radix(ss, 16)` and the `match` on its result "
    "(is_hex_digit / parse_hex / all_some of the model); the order `.rev()` of the chunks; `return Err(())` / `Ok(())`",
    "debug_assert! / assert! lines (recorded with their text by Gen/Guards.v, checked by Proofs/Guards17.v)",
    "the overflow checks of the index arithmetic (`i + stride`, `k - mj + mi`, `(i + 1) * width`, `num_vars + 1`): plain N "
    "arithmetic on both sides (the model has no check there; the values are below the table length)",
]


def generate3():
    if not FN_CACHE1:
        generate()
    del OVERRIDDEN3[:]
    SOURCES3.clear()
    fn_cache = {}
    defs = []
    ALLOW_MATCH[0] = True
    FOR_BINDER_EXTRA[0] = for_binder3
    try:
        for rel in FILES3:
            SOURCES3[rel] = Source2(rel)
        for spec in SPECS3:
            src = SOURCES3[spec["file"]]
            key = (spec["impl"], spec["fn"])
            if key not in src.fns:
                fail("%s: %s not found" % (spec["file"], fn_label(*key)))
            ck = (spec["file"],) + key
            if ck not in fn_cache:
                fn_cache[ck] = Fn3(src, key)
            spec.pop("_label", None)
            d = build_definition2(fn_cache[ck], spec, Translator3, find_target3, OVERRIDDEN3)
            d["label"] = spec.get("_label")
            defs.append(d)
        used = set()
        for ck, fn in fn_cache.items():
            used |= check_coverage3(fn)
    finally:
        ALLOW_MATCH[0] = False
        FOR_BINDER_EXTRA[0] = None
    for k in list(SKIPPED_LETS3) + list(SKIPPED_STMTS3):
        if k not in used:
            fail("the skip list of part 3 names %s: %s `%s`, which does not exist (any more) or is translated" % k)
    part1_only = []
    for rel in FILES3:
        for key in SOURCES3[rel].order:
            lab = (rel, fn_label(*key))
            in3 = (rel,) + key in fn_cache
            in1 = not key[0] and (rel, key[1]) in FN_CACHE1
            listed = lab in SKIPPED_FNS3
            if listed == (in1 or in3):
                fail("%s: %s is %s" % (rel, lab[1], "both translated and listed as skipped" if listed else
                                       "neither translated (parts 1, 3) nor listed in SKIPPED_FNS3"))
            if in1 and not in3:
                part1_only.append(lab)
    for lab in SKIPPED_FNS3:
        if not any(lab == (rel, fn_label(*key)) for rel in FILES3 for key in SOURCES3[rel].order):
            fail("the skip list of part 3 names %s: %s, which does not exist" % lab)

    L = []
    L.append("(* GENERATED by gen/gen_exprs.py (part 3) from src/operations.rs and src/decomposition.rs - do not edit.")
    L.append("   What Gen/Exprs.v leaves to the hand-written model: the whole-word regimes (strides, loop guards, indices of the")
    L.append("   words read and written, which word goes where), the regime selectors, fill_symmetric word by word, the sizes and")
    L.append("   widths, the arithmetic of fill_hex, the control flow of next_inplace.  Translated from the Rust source text on")
    L.append("   every run; Proofs/ExprsTie3.v proves that each definition is the expression of the hand-written model.")
    L.append("   usize values are N; `x[e]` on a slice is nthN x (N.to_nat e); x.len() is length x. *)")
    L.append("From Coq Require Import List NArith Arith Bool.")
    L.append("From V Require Import Base.Res Gen.Tables Model.Kernels.")
    L.append("Import ListNotations.")
    L.append("Open Scope N_scope.")
    L.append("")
    translated_lets = {(d["file"], d["fn"], d["target"][4:]) for d in defs if d["target"].startswith("let:")}
    for d in defs:
        regime = (" [" + ", ".join(d["path"]) + "]") if d["path"] else ""
        loc = "%s: %s%s" % (d["file"].replace("src/", ""), fn_label(d["impl"], d["fn"]), regime)
        if d["src"] is not None:
            cm = "(* %s, whole body\n   `%s`" % (loc, coq_comment(d["src"]))
        elif d["label"]:
            cm = "(* %s, %s" % (loc, coq_comment(d["label"]))
        else:
            cm = "(* %s, `%s`" % (loc, coq_comment(d["stmt"]))
        if d["lets"]:
            cm += "\n   with " + "  ".join("`%s`" % coq_comment(x) for x in d["lets"])
        if d["calls"]:
            cm += "\n   forwards to " + ", ".join(d["calls"])
        cm += " *)"
        L.append(cm)
        L.append(d["text"])
        if d["guard"]:
            L.append("(* dev-profile checks of the shift amounts of the statement above (amount < width of the shifted type) *)")
            L.append(d["guard"])
        L.append("")
    L.append("(* functions of the two files translated by part 1 only (Gen/Exprs.v):")
    L.append("   " + ", ".join("%s: %s" % (f.replace("src/", ""), l) for f, l in part1_only))
    L.append("   functions of the two files that are NOT translated:")
    for (file, lab), why in sorted(SKIPPED_FNS3.items()):
        L.append("   %s: %s - %s" % (file.replace("src/", ""), lab, coq_comment(why)))
    L.append("   statements, loop heads and locals of the translated functions that are not translated:")
    for (file, lab, name), why in sorted(SKIPPED_LETS3.items()):
        L.append("   %s: %s `let %s` - %s" % (file.replace("src/", ""), lab, name, coq_comment(why)))
    for (file, lab, st), why in sorted(SKIPPED_STMTS3.items()):
        L.append("   %s: %s `%s ..` - %s" % (file.replace("src/", ""), lab, coq_comment(st), coq_comment(why)))
    L.append("   locals over which a definition above is abstracted without being translated by another one:")
    for file, lab, st in OVERRIDDEN3:
        m = re.match(r"let (?:mut )?(\w+)", st)
        fname = lab[3:] if lab.startswith("fn ") else lab
        if m and (file, fname, m.group(1)) in translated_lets:
            continue
        note = OVERRIDDEN_NOTES3.get((file, lab, m.group(1) if m else ""))
        L.append("   %s: %s `%s`%s" % (file.replace("src/", ""), lab, coq_comment(st), (" - " + note) if note else ""))
    L.append("   shifts whose dev-profile amount check is NOT emitted (the model has no check there either):")
    for d in defs:
        sh = [(a, w) for a, w in d["shifts"] if not (a.isdigit() and w and int(a) < w)]
        if sh and not d["guard"]:
            L.append("   %s: %s" % (d["name"], ", ".join("%s < %s" % (a, w if w else "width of an untyped literal") for a, w in sh)))
    L.append("   not tied (see Proofs/ExprsTie3.v):")
    for t in NOT_TIED3:
        L.append("   - " + coq_comment(t))
    L.append("*)")
    L.append("")
    return "\n".join(L), defs


# ==============================================================================================
# PART 4: the two-level forms themselves: src/sop/sop.rs, src/sop/esop.rs, src/sop/soes.rs and what part 2 leaves of
#         src/sop/cube.rs, src/sop/ecube.rs   ->  coq/Gen/Exprs4.v   (tied to the model by Proofs/ExprsTie4.v)
#
# Every function is translated as a WHOLE BODY by a small state-passing compilation of the statement block (parts 1-3
# are left as they are, their output is byte-identical):
#   let [mut] x = e;            -> let x := e in ..
#   x = e;  x op= e;            -> let x := .. in ..             (a re-binding of the same name)
#   x.f = e;  x.f.push(e);      -> let x := mkX (..) e' (..) in ..   (the record rebuilt with the other fields projected)
#   v.push(e)  v.extend(&w)  v.retain(f)  v.sort()  v.dedup()
#                               -> v ++ [e]   v ++ w   filter f v   cube_sort v   cube_dedup v
#   x.m(..);  (m takes &mut self and is translated: Sop::simplify)  -> let x := gx_m x .. in ..
#   for p in L { body }         -> let s := fold_left (fun s p => body; s) L s in ..
#                                  where s = the variables of the enclosing scope that the body modifies (a tuple if there
#                                  are several); `continue` gives the state back
#   if c { body }               -> let s := if c then (body; s) else s in ..       if c { return v; } .. -> if c then v else ..
#   for p in L { if c { return false; } } return true;    -> forallb (fun p => negb c) L      (and the dual: existsb)
#   match o { Some(x) => a, None => b }  -> match o with Some x => a | None => b end;   v.first() -> hd_error v
#   an arm `panic!()` becomes the extra parameter `unreachable` of the definition: the tie is proved for EVERY value of
#   it, which is the statement that the arm is dead
#   iterators are lists:  v.iter() / .collect() -> v    .map(f) -> map f    .filter(f) -> filter f    .all(f) -> forallb f
#   .any(f) -> existsb f    .len() -> length    .is_empty() -> vec_is_empty    lo..hi (usize) -> range4 lo hi
#   closures -> fun;  vec![a, b] -> [a; b];  Vec::new() -> []
# Targets:  value    the value the body returns (for a `&mut self` method: the receiver at the end); assert! lines skipped
#           asserts  the conjunction, in source order, of the arguments of the assert! / assert_eq! lines of the body,
#                    a loop around them being forallb (the model checks them with `always`)
#           written  (Display::fmt) the text written to the formatter, as a byte list: string literals are read from
#                    the source; `write!(f, "lit")?; return Ok(())` and the final `write!(f, "{}", s)` are the only shapes
# Types: the structs Sop / Esop / Soes are the records of Model/TwoLevel.v (fields and order read from the `struct`
# items); `num_vars` (field or usize parameter) is a nat, as in those records; Vec<T> / &[T] / impl Iterator<Item = T>
# are lists; String is a byte list.  Vocabulary that is NOT read from the source (listed in the trailer of Exprs4.v):
# the Lut methods used by the conversions, Vec::sort / Vec::dedup on cubes, to_string() of a cube, join.
# Coverage: every statement of a translated function is consumed by one of its definitions or the generator fails;
# every fn of sop.rs / esop.rs / soes.rs is translated or listed in SKIPPED_FNS4; stale list entries fail.

SOP = "src/sop/sop.rs"
ESOP = "src/sop/esop.rs"
SOES = "src/sop/soes.rs"
FILES4 = (CUBE, ECUBE, SOP, ESOP, SOES)
FILES4_FULL = (SOP, ESOP, SOES)

STRUCT_VOCAB4 = {
    "Sop": {"file": SOP, "ty": "sop", "ctor": "mkSop", "proj": [("num_vars", "snv"), ("cubes", "scubes")],
            "field_ty": {"num_vars": "nat"}},
    "Esop": {"file": ESOP, "ty": "esop", "ctor": "mkEsop", "proj": [("num_vars", "env"), ("cubes", "ecubes")],
             "field_ty": {"num_vars": "nat"}},
    "Soes": {"file": SOES, "ty": "soes", "ctor": "mkSoes", "proj": [("num_vars", "onv"), ("cubes", "ocubes")],
             "field_ty": {"num_vars": "nat"}},
}
COQ_TYPE4 = {"sop": "sop", "esop": "esop", "soes": "soes", "lut": "lut", "str": "list N"}
# usize parameters with these names are nat (the variable count of the model records)
NAT_PARAMS4 = {"num_vars"}
ELEM_NAMES4 = {"Cube": "cube", "Ecube": "ecube", "String": "str"}
ASSERT_MACROS = ("assert", "debug_assert", "assert_eq", "debug_assert_eq")
VEC_MUT_METHODS = ("push", "extend", "retain", "sort", "dedup")
LUT_MUT_METHODS = ("set_bit", "set_value")
DISPLAY4 = {"cube": "cube_display", "ecube": "ecube_display"}
SORT4 = {"cube": ("cube_sort", "cube_dedup")}


def rust_type4(t, self_ty, output_ty):
    """types of part 4 (t without spaces); None = not one of them"""
    ref = ""
    u = t
    if u.startswith("&mut"):
        ref, u = "&", u[4:]
    elif u.startswith("&"):
        ref, u = "&", u[1:]
    if u == "Lut":
        return ref + "lut"
    if u == "String" or u == "str":
        return "str"
    m = re.fullmatch(r"Vec<(\w+)>|\[(\w+)\]|implIterator<Item=(\w+)>(?:\+'_)?", u)
    if m:
        el = m.group(1) or m.group(2) or m.group(3)
        if el in ELEM_NAMES4:
            return ref + "vec:" + ELEM_NAMES4[el]
        if m.group(3) and el in INT_WIDTH:
            return "vec:" + el
    return None


def strip_refs(ty):
    return ty.replace("&", "")


def is_vec(ty):
    return strip_refs(ty).startswith("vec:")


def elem_of(ty):
    """element type of a list type, with its own reference mark"""
    t = ty[1:] if ty.startswith("&") else ty
    return t[4:]


def iter_elem(ty):
    """type of the loop variable of `for x in <ty>`: borrowed vectors of structs yield references, integers are copied"""
    el = elem_of(ty)
    if el in ("&usize", "&u32", "&u64", "&bool"):
        return el[1:]
    if ty.startswith("&") and not el.startswith("&") and el in STRUCT_OF_TY:
        return "&" + el
    return el


def compat4(a, b):
    """may a value of type a be used where b is expected (references and unknown element types do not count)"""
    a, b = strip_refs(a), strip_refs(b)
    if a == b:
        return True
    if a.startswith("vec:") and b.startswith("vec:") and "?" in (a[4:], b[4:]):
        return True
    if a.startswith("tuple:") and b.startswith("tuple:"):
        xs, ys = a[6:].split("|"), b[6:].split("|")
        return len(xs) == len(ys) and all(compat4(x, y) or (is_int(x) and is_int(y) and Translator2.unify(x, y)) for x, y in zip(xs, ys))
    return False


def more_specific(a, b):
    if a == "lit" or "?" in a:
        return b
    return a


def coq_type4(ty, where):
    t = strip_refs(ty)
    if t in COQ_TYPE4:
        return COQ_TYPE4[t]
    if t.startswith("vec:") and t != "vec:?":
        return "list " + Translator.paren(coq_type4(t[4:], where))
    if t.startswith("tuple:"):
        return " * ".join(Translator.paren(coq_type4(x, where)) for x in t[6:].split("|"))
    return coq_type2(t, where)


def rust_string_bytes(tok, where):
    """bytes of a Rust string literal token"""
    body = tok[1:-1]
    out, i = [], 0
    esc = {"n": 10, "t": 9, "r": 13, "\\": 92, "\"": 34, "'": 39, "0": 0}
    while i < len(body):
        ch = body[i]
        if ch == "\\":
            if i + 1 >= len(body) or body[i + 1] not in esc:
                fail("%s: escape sequence in the string literal %s" % (where, tok))
            out.append(esc[body[i + 1]])
            i += 2
        else:
            out.extend(ch.encode("utf-8"))
            i += 1
    return out


def bytes_text(bs):
    return "[" + "; ".join(str(b) for b in bs) + "]"


# ----------------------------------------------------------------------------------------------
# part 4: statement blocks -> one expression.  New AST nodes:
#   ('lettuple', names, rhs, body)  ('tuplev', names)  ('fold', state names, loop variable, iterated, body)
#   ('setfield', x, field, e)  ('mutcall', place, method, args)  ('quant', 'forallb' | 'existsb', variable, iterated, e)
#   ('match', scrutinee, ((pattern, e)..))  pattern = ('Some', x) | ('None',) | ('_',)
#   ('conj', (e..))  ('bytes', [byte..])  ('vecmac', (e..))  ('macro', name, argument text)

class Conv4:
    def __init__(self, fn, mut_methods):
        self.fn = fn
        self.mut_methods = mut_methods

    def W(self, s):
        return "%s: `%s`" % (self.fn.where, stmt_text(self.fn, s))

    def expr_of(self, s):
        return stmt_expr(self.fn, s)

    # -- which variables of the enclosing scope a block modifies (in order of first modification)
    def root(self, place, w):
        while True:
            if place[0] == "path" and "::" not in place[1]:
                return place[1]
            if place[0] == "field":
                place = place[1]
            elif place[0] == "un" and place[1] == "*":
                place = place[2]
            else:
                fail("%s: the modified place is neither a variable nor a field of a variable" % w)

    def mutation(self, s):
        """(place, new value) of a statement that modifies a place, or None"""
        w = self.W(s)
        if s.kind == "assign":
            return parse_expr(s.lhs, w), expand_assign(s, w)
        if s.kind == "expr":
            e = self.expr_of(s)
            if e[0] == "mcall" and e[2] in self.mut_methods:
                return e[1], ("mutcall", e[1], e[2], e[3])
        return None

    def mutated(self, block):
        out, declared = [], set()

        def walk(b, local):
            local = set(local)
            for s in b:
                if s.kind == "let":
                    if s.name is not None:
                        local.add(s.name)
                    continue
                m = self.mutation(s)
                if m is not None:
                    r = self.root(m[0], self.W(s))
                    if r not in local and r not in out:
                        out.append(r)
                elif s.kind == "for":
                    walk(s.body, local | self.loop_vars(s))
                elif s.kind == "if":
                    for _, body in s.branches:
                        walk(body, local)
        walk(block, declared)
        return out

    def loop_vars(self, s):
        j = find_at_depth0(s.head, 0, {"in"}, self.W(s))
        return {t.text for t in s.head[:j] if t.kind == "id"}

    @staticmethod
    def state_expr(names):
        return ("path", names[0]) if len(names) == 1 else ("tuplev", tuple(names))

    @staticmethod
    def bind(names, value, rest):
        if len(names) == 1:
            # `let x := v in x` is v
            return value if rest == ("path", names[0]) else ("let", names[0], "", value, rest)
        return value if rest == ("tuplev", tuple(names)) else ("lettuple", tuple(names), value, rest)

    def assign_place(self, place, val, rest, w):
        while place[0] == "un" and place[1] == "*":
            place = place[2]
        if place[0] == "path" and "::" not in place[1]:
            return self.bind([place[1]], val, rest)
        if place[0] == "field" and place[1][0] == "path":
            return self.bind([place[1][1]], ("setfield", place[1], place[2], val), rest)
        fail("%s: assignment to a place that is neither a variable nor a field of a variable" % w)

    def has_asserts(self, block):
        for s in block:
            if s.kind == "macro" and s.name in ASSERT_MACROS:
                return True
            if s.kind == "for" and self.has_asserts(s.body):
                return True
            if s.kind == "if" and any(self.has_asserts(b) for _, b in s.branches):
                return True
        return False

    def only_asserts(self, block):
        return all((s.kind == "macro" and s.name in ASSERT_MACROS) or
                   (s.kind == "for" and s.toks[0].text == "for" and self.only_asserts(s.body)) for s in block)

    def diverges(self, block):
        if not block:
            return False
        s = block[-1]
        return s.kind == "return" or (s.kind == "expr" and norm(s.expr) == "continue")

    def is_bool_return(self, s):
        """the boolean literal returned by `return b;` / a tail `b`, or None"""
        if s.kind == "return" and s.rhs and norm(s.rhs) in ("true", "false"):
            return norm(s.rhs)
        if s.kind == "expr" and s.tail and norm(s.expr) in ("true", "false"):
            return norm(s.expr)
        return None

    def for_parts(self, s):
        w = self.W(s)
        if s.toks[0].text != "for":
            fail("%s: `%s` loops are outside the translated fragment" % (w, s.toks[0].text))
        j = find_at_depth0(s.head, 0, {"in"}, w)
        if j >= len(s.head):
            fail("%s: `for` without `in`" % w)
        if j != 1 or s.head[0].kind != "id":
            fail("%s: only `for <variable> in ..` is in the translated fragment" % w)
        return s.head[0].text, parse_expr(s.head[j + 1:], w)

    # -- value
    def value(self, stmts, cont, loop_state=None):
        """the value of the statements; cont = the expression they fall through to (None: they must end with a value)"""
        if not stmts:
            if cont is None:
                fail("%s: block without a value" % self.fn.where)
            return cont
        s, rest = stmts[0], stmts[1:]
        w = self.W(s)
        if s.kind == "let":
            if s.name is None or s.rhs is None:
                fail("%s: `let` outside the translated fragment" % w)
            s.covered = True
            return ("let", s.name, s.ann, parse_expr(s.rhs, w), self.value(rest, cont, loop_state))
        if s.kind == "macro":
            if s.name in ASSERT_MACROS:
                s.skipped_assert = True
                return self.value(rest, cont, loop_state)
            if s.name in ("panic", "unreachable") and not rest:
                s.covered = True
                return ("macro", s.name, norm(s.args))
            fail("%s: macro outside the translated fragment" % w)
        if s.kind == "return":
            if loop_state is not None:
                fail("%s: `return` inside a loop (only the search loops `for .. { if c { return b; } } return !b` are read)" % w)
            if rest or not s.rhs:
                fail("%s: `return` that does not end the block" % w)
            s.covered = True
            return parse_expr(s.rhs, w)
        m = self.mutation(s)
        if m is not None:
            s.covered = True
            return self.assign_place(m[0], m[1], self.value(rest, cont, loop_state), w)
        if s.kind == "expr":
            if norm(s.expr) == "continue":
                if loop_state is None or rest:
                    fail("%s: `continue` outside a loop or not at the end of a block" % w)
                s.covered = True
                return loop_state
            if not rest and cont is None:
                s.covered = True
                return self.expr_of(s)
            fail("%s: expression statement outside the translated fragment (no translated effect)" % w)
        if s.kind == "for":
            if self.only_asserts(s.body):
                s.skipped_assert = True
                return self.value(rest, cont, loop_state)
            var, it = self.for_parts(s)
            # search loop
            if loop_state is None and cont is None and len(rest) == 1 and len(s.body) == 1 and s.body[0].kind == "if" \
                    and not getattr(s.body[0], "is_match", False) and len(s.body[0].branches) == 1 \
                    and len(s.body[0].branches[0][1]) == 1:
                inner = self.is_bool_return(s.body[0].branches[0][1][0])
                outer = self.is_bool_return(rest[0])
                if inner and outer and inner != outer and s.body[0].branches[0][1][0].kind == "return":
                    c = parse_expr(s.body[0].branches[0][0], w)
                    for x in (s, s.body[0], s.body[0].branches[0][1][0], rest[0]):
                        x.covered = True
                    if inner == "false":
                        return ("quant", "forallb", var, it, ("un", "!", c))
                    return ("quant", "existsb", var, it, c)
            if self.has_asserts(s.body):
                fail("%s: loop with both assertions and effects" % w)
            state = self.mutated([s])
            if not state:
                fail("%s: loop without an effect on a variable of the enclosing scope" % w)
            st = self.state_expr(state)
            s.covered = True
            body = self.value(s.body, st, st)
            return self.bind(state, ("fold", tuple(state), var, it, body), self.value(rest, cont, loop_state))
        if s.kind == "if":
            s.covered = True
            if getattr(s, "is_match", False):
                if rest or cont is not None:
                    fail("%s: only a `match` that ends the body is read as a value" % w)
                arms = []
                for pat, body in s.branches:
                    arms.append((self.pattern(pat, w), self.value(body, None, loop_state)))
                return ("match", parse_expr(s.scrutinee, w), tuple(arms))
            has_else = s.branches[-1][0] is None
            if has_else and not rest and cont is None:
                e = self.value(s.branches[-1][1], None, loop_state)
                for cond, body in reversed(s.branches[:-1]):
                    e = ("if", parse_expr(cond, w), self.value(body, None, loop_state), e)
                return e
            if not has_else and len(s.branches) == 1 and self.diverges(s.branches[0][1]):
                return ("if", parse_expr(s.branches[0][0], w), self.value(s.branches[0][1], None, loop_state),
                        self.value(rest, cont, loop_state))
            if any(self.diverges(b) for _, b in s.branches):
                fail("%s: `return` / `continue` in a branch of an if / else chain with effects" % w)
            state = self.mutated([s])
            if not state:
                fail("%s: `if` without an effect on a variable of the enclosing scope" % w)
            st = self.state_expr(state)
            e = st if not has_else else self.value(s.branches[-1][1], st, loop_state)
            for cond, body in reversed(s.branches if not has_else else s.branches[:-1]):
                e = ("if", parse_expr(cond, w), self.value(body, st, loop_state), e)
            return self.bind(state, e, self.value(rest, cont, loop_state))
        fail("%s: statement outside the translated fragment" % w)

    def pattern(self, pat, w):
        t = norm(pat)
        m = re.fullmatch(r"Some \( (\w+) \)", t)
        if m:
            return ("Some", m.group(1))
        if t == "None":
            return ("None",)
        if t == "_":
            return ("_",)
        fail("%s: the pattern `%s` is outside the translated fragment" % (w, t))

    # -- asserts
    def asserts(self, stmts):
        out = []
        for s in stmts:
            w = self.W(s)
            if s.kind == "macro" and s.name in ASSERT_MACROS:
                s.covered = True
                if s.name.endswith("_eq"):
                    k = find_at_depth0(s.args, 0, {","}, w)
                    k2 = find_at_depth0(s.args, k + 1, {","}, w)
                    if k >= len(s.args):
                        fail("%s: assert_eq! with one argument" % w)
                    out.append(("bin", "==", parse_expr(s.args[:k], w), parse_expr(s.args[k + 1:k2], w)))
                else:
                    k = find_at_depth0(s.args, 0, {","}, w)
                    out.append(parse_expr(s.args[:k], w))
            elif s.kind == "for" and self.has_asserts(s.body):
                if not self.only_asserts(s.body):
                    fail("%s: loop with both assertions and effects" % w)
                var, it = self.for_parts(s)
                s.covered = True
                inner = self.asserts(s.body)
                out.append(("quant", "forallb", var, it, inner[0] if len(inner) == 1 else ("conj", tuple(inner))))
            elif self.has_asserts([s]):
                fail("%s: assertion under a condition" % w)
        return out

    # -- written
    def written(self, stmts):
        if not stmts:
            fail("%s: fmt without a final write!" % self.fn.where)
        s, rest = stmts[0], stmts[1:]
        w = self.W(s)
        if s.kind == "let":
            if s.name is None or s.rhs is None:
                fail("%s: `let` outside the translated fragment" % w)
            s.covered = True
            return ("let", s.name, s.ann, parse_expr(s.rhs, w), self.written(rest))
        if s.kind == "if" and not getattr(s, "is_match", False) and len(s.branches) == 1:
            b = s.branches[0][1]
            if len(b) == 3 and b[0].kind == "macro" and b[0].name == "write" and b[1].kind == "expr" \
                    and norm(b[1].expr) == "?" and b[2].kind == "return" and norm(b[2].rhs) == "Ok ( ( ) )":
                a = b[0].args
                if len(a) == 3 and a[0].kind == "id" and a[1].text == "," and a[2].kind == "str":
                    bs = rust_string_bytes(a[2].text, w)
                    if 123 in bs or 125 in bs:
                        fail("%s: format string with placeholders" % w)
                    for x in [s] + b:
                        x.covered = True
                    return ("if", parse_expr(s.branches[0][0], w), ("bytes", bs), self.written(rest))
            fail("%s: only `if c { write!(f, \"literal\")?; return Ok(()); }` is read" % w)
        if s.kind == "macro" and s.name == "write" and not rest:
            a = s.args
            if len(a) >= 5 and a[0].kind == "id" and a[1].text == "," and a[2].kind == "str" and a[2].text == '"{}"' \
                    and a[3].text == ",":
                s.covered = True
                return ("tostr", parse_expr(a[4:], w))
            fail("%s: only a final `write!(f, \"{}\", e)` is read" % w)
        fail("%s: statement outside the fragment read as written text" % w)


# ----------------------------------------------------------------------------------------------
# part 4: translation

class Translator4(Translator3):
    def __init__(self, where, env, abstractions, source, hints=None):
        Translator3.__init__(self, where, env, abstractions, source, hints)
        self.shared = {"unreachable": None}

    @staticmethod
    def paren(text):
        # a list literal needs no parentheses
        if text.startswith("[") and text.endswith("]") and text.count("[") == 1:
            return text
        return Translator.paren(text)

    def sub(self):
        s = Translator3.sub(self)
        s.shared = self.shared
        return s

    def coerce(self, e, want):
        text, ty = self.tr(e, want)
        if ty == want or (ty == "lit" and is_int(want)) or compat4(ty, want):
            return text
        if ty == "nat" and want in INT_WIDTH:
            if want != "usize":
                self.err("`%s` is a usize (nat) where %s is expected" % (text, want))
            return "N.of_nat " + self.paren(text)
        if ty == "usize" and want == "nat":
            return "N.to_nat " + self.paren(text)
        self.err("type mismatch: `%s` has type %s where %s is expected" % (text, ty, want))

    def bind_closure(self, c, ptypes, want=None):
        """closure -> (fun text, type of the body)"""
        if c[0] != "closure":
            self.err("a closure is expected as the argument")
        if c[2][0] == "block":
            self.err("closure with a statement block")
        if len(c[1]) != len(ptypes):
            self.err("closure with %d parameters where %d are expected" % (len(c[1]), len(ptypes)))
        sub = self.sub()
        binders = []
        for p, t, ann in zip(c[1], ptypes, c[3]):
            if ann:
                t = rust_type(ann)
            if t in ("&usize", "&u32", "&u64", "&bool"):
                t = t[1:]
            if p.startswith("("):
                names = p[1:-1].split(",")
                tys = strip_refs(t)[6:].split("|") if strip_refs(t).startswith("tuple:") else []
                if len(names) != len(tys):
                    self.err("the pattern %s binds a value of type %s" % (p, t))
                for n, ty1 in zip(names, tys):
                    sub.env[n] = ty1
                binders.append("'(%s)" % ", ".join(cid(n) for n in names))
                continue
            if p != "_":
                sub.env[p] = t
            known = t != "lit" and "?" not in t
            binders.append(("(%s : %s)" % (cid(p), coq_type4(t, self.where))) if known else cid(p))
        body, ty = sub.tr(c[2], want)
        self.absorb(sub)
        return "fun %s => %s" % (" ".join(binders), body), ty

    def tr(self, e, want=None):
        k = e[0]
        P = self.paren
        if k == "vecmac":
            if not e[1]:
                return "[]", "vec:?"
            el_want = elem_of(want) if want and is_vec(want) and elem_of(want) != "?" else None
            t0 = strip_refs(self.ty_of(e[1][0], el_want))
            if t0 == "lit":
                t0 = el_want or "usize"
            return "[" + "; ".join(self.coerce(x, t0) for x in e[1]) + "]", "vec:" + t0
        if k == "bytes":
            return bytes_text(e[1]), "str"
        if k == "str":
            return bytes_text(rust_string_bytes(e[1], self.where)), "str"
        if k == "tostr":
            text, ty = self.tr(e[1])
            if strip_refs(ty) != "str":
                self.err("`{}` of `%s` : %s (only strings are written)" % (text, ty))
            return text, "str"
        if k == "macro":
            if e[1] not in ("panic", "unreachable"):
                self.err("macro `%s!` in an expression" % e[1])
            ty = want or "bool"
            if self.shared["unreachable"] not in (None, ty):
                self.err("two dead arms of different types")
            if self.recording:
                self.shared["unreachable"] = ty
            return "unreachable", ty
        if k == "range":
            if e[1] is None or e[2] is None or e[3]:
                self.err("only half-open ranges `lo..hi` are in the vocabulary")
            ta, tb = self.ty_of(e[1]), self.ty_of(e[2])
            ty = self.unify(ta, tb) if is_int(ta) and is_int(tb) else None
            if ty is None or ty == "nat":
                self.err("range with bounds of types %s and %s" % (ta, tb))
            if ty == "lit":
                ty = "usize"
            return "range4 %s %s" % (P(self.coerce(e[1], ty)), P(self.coerce(e[2], ty))), "vec:" + ty
        if k == "tupleexpr":
            parts = [self.tr(x) for x in e[1]]
            if any(t == "lit" for _, t in parts):
                self.err("tuple with an untyped literal")
            return "(" + ", ".join(t for t, _ in parts) + ")", "tuple:" + "|".join(strip_refs(ty) for _, ty in parts)
        if k == "tuplev":
            parts = [self.tr(("path", n)) for n in e[1]]
            return "(" + ", ".join(t for t, _ in parts) + ")", "tuple:" + "|".join(ty for _, ty in parts)
        if k == "conj":
            return "(" + " && ".join(P(self.coerce(x, "bool")) for x in e[1]) + ")", "bool"
        if k == "setfield":
            vtext, vty = self.tr(e[1])
            st = STRUCT_OF_TY.get(base_ty(vty))
            if st is None:
                self.err("field `%s` of `%s` : %s" % (e[2], vtext, vty))
            fields = struct_fields(st, self.where)
            proj = dict(STRUCT_VOCAB[st]["proj"])
            if e[2] not in dict(fields):
                self.err("`%s` has no field `%s`" % (st, e[2]))
            args = [P(self.coerce(e[3], t)) if f == e[2] else "(%s %s)" % (proj[f], P(vtext)) for f, t in fields]
            return "%s %s" % (STRUCT_VOCAB[st]["ctor"], " ".join(args)), base_ty(vty)
        if k == "mutcall":
            return self.tr_mutcall(e)
        if k == "let":
            # as part 2, with the state types of part 4 (unknown element types are refined by the re-bindings)
            name, ann, rhs, body = e[1], e[2], e[3], e[4]
            ty = self.let_type(name, ann, rhs, body)
            text = self.tr(rhs)[0] if ty == "lit" else self.coerce(rhs, ty)
            sub = self.sub()
            sub.env[name] = ty
            btext, bty = sub.tr(body, want)
            self.absorb(sub)
            known = ann and ty != "lit" and "?" not in ty
            return "let %s%s := %s in\n  %s" % (cid(name), (" : " + coq_type4(ty, self.where)) if known else "", text, btext), bty
        if k == "lettuple":
            text, ty = self.tr(e[2])
            tys = ty[6:].split("|") if ty.startswith("tuple:") else []
            if len(tys) != len(e[1]):
                self.err("`%s` : %s is bound to %d names" % (text, ty, len(e[1])))
            sub = self.sub()
            for n, t in zip(e[1], tys):
                sub.env[n] = t
            btext, bty = sub.tr(e[3], want)
            self.absorb(sub)
            return "let '(%s) := %s in\n  %s" % (", ".join(cid(n) for n in e[1]), text, btext), bty
        if k == "fold":
            return self.tr_fold(e)
        if k == "quant":
            it, ity = self.tr(e[3])
            if not is_vec(ity):
                self.err("iteration over `%s` : %s" % (it, ity))
            f, ty = self.bind_closure(("closure", (e[2],), e[4], ("",)), [iter_elem(ity)], "bool")
            if ty != "bool":
                self.err("the body of the quantified loop has type %s" % ty)
            return "%s (%s) %s" % (e[1], f, P(it)), "bool"
        if k == "match":
            stext, sty = self.tr(e[1])
            if not sty.startswith("opt:"):
                self.err("`match` on `%s` : %s (only Option values are matched)" % (stext, sty))
            arms = []
            ty = want
            order = sorted(range(len(e[2])), key=lambda i: e[2][i][1][0] == "macro")
            texts = {}
            for i in order:
                pat, body = e[2][i]
                sub = self.sub()
                if pat[0] == "Some":
                    sub.env[pat[1]] = sty[4:]
                t, bty = sub.tr(body, ty)
                self.absorb(sub)
                if ty is None or ty == "lit":
                    ty = bty
                elif not (compat4(bty, ty) or bty == "lit"):
                    self.err("the arms of the `match` have types %s and %s" % (ty, bty))
                texts[i] = t
            for i, (pat, _) in enumerate(e[2]):
                p = {"Some": "Some " + cid(pat[1]) if pat[0] == "Some" else "", "None": "None", "_": "_"}[pat[0]]
                arms.append("| %s => %s" % (p, texts[i]))
            return "match %s with %s end" % (stext, " ".join(arms)), ty
        if k == "if":
            c = self.coerce(e[1], "bool")
            ta, tb = self.ty_of(e[2], want), self.ty_of(e[3], want)
            if is_int(ta) and is_int(tb):
                return Translator3.tr(self, e, want)
            if not compat4(ta, tb):
                self.err("the branches of `if` have types %s and %s" % (ta, tb))
            ty = more_specific(strip_refs(ta), strip_refs(tb))
            return "if %s then %s else %s" % (c, self.coerce(e[2], ty), self.coerce(e[3], ty)), ty
        if k == "closure":
            self.err("closure outside a method call of the vocabulary")
        return Translator3.tr(self, e, want)

    def let_type(self, name, ann, rhs, body):
        if not ann:
            ty = self.ty_of(rhs)
            if ty != "lit":
                return ty
            # `let mut ret = 0;` : the type of the first re-binding `ret op= e`
            sub = self.sub()
            sub.env[name] = "lit"
            sub.recording = False
            for x in self.rebindings(body, name):
                for y in subexprs2(x):
                    if y[0] == "bin" and y[1] not in ("<<", ">>", "&&", "||") and ("path", name) in (y[2], y[3]):
                        other = y[3] if y[2] == ("path", name) else y[2]
                        try:
                            t = sub.ty_of(other)
                        except GenExprError:
                            continue
                        if t != "lit" and is_int(t):
                            return t
            return "lit"
        return Translator3.let_type(self, name, ann, rhs, body)

    def rebindings(self, body, name):
        """right-hand sides of the re-bindings of `name` in a let chain (entering folds: the loop variable stays unbound,
        so only operands that do not mention it are typed)"""
        out = []
        while body[0] in ("let", "lettuple"):
            if body[0] == "let":
                if body[1] == name:
                    rhs = body[3]
                    out.append(rhs[4] if rhs[0] == "fold" else rhs)
                    if rhs[0] == "fold":
                        out.extend(self.rebindings(rhs[4], name))
                body = body[4]
            else:
                body = body[3]
        return out

    def tr_fold(self, e):
        state, var, it, body = e[1], e[2], e[3], e[4]
        P = self.paren
        ittext, ity = self.tr(it)
        if not is_vec(ity):
            self.err("iteration over `%s` : %s" % (ittext, ity))
        el = iter_elem(ity)
        sub = self.sub()
        stys = []
        for n in state:
            if n not in self.env:
                self.err("the loop modifies `%s`, which is not a variable of the enclosing scope" % n)
            stys.append(self.env[n])
        # a state whose type is not known yet (`let mut ret = 0`, `Vec::new()`): take the type of the loop body
        if len(state) == 1 and (stys[0] == "lit" or "?" in stys[0]):
            probe = self.sub()
            probe.env[var] = el
            probe.recording = False
            try:
                bt = probe.tr(body)[1]
            except GenExprError:
                bt = stys[0]
            stys = [more_specific(stys[0], bt)]
        sub.env[var] = el
        for n, t in zip(state, stys):
            sub.env[n] = t
        btext, bty = sub.tr(body)
        self.absorb(sub)
        if len(state) == 1:
            if not (compat4(bty, stys[0]) or (is_int(bty) and is_int(stys[0]))):
                self.err("the loop body has type %s, the state `%s` has type %s" % (bty, state[0], stys[0]))
            ty = more_specific(stys[0], bty)
            return "fold_left (fun %s %s => %s) %s %s" % (cid(state[0]), cid(var), btext, P(ittext), cid(state[0])), ty
        ty = "tuple:" + "|".join(stys)
        if not compat4(bty, ty):
            self.err("the loop body has type %s, the state has type %s" % (bty, ty))
        names = ", ".join(cid(n) for n in state)
        return "fold_left (fun st_ %s => let '(%s) := st_ in %s) %s (%s)" % (cid(var), names, btext, P(ittext), names), ty

    def tr_mutcall(self, e):
        place, name, args = e[1], e[2], e[3]
        P = self.paren
        text, ty = self.tr(place)
        b = base_ty(ty)
        if is_vec(b):
            el = strip_refs(elem_of(b))
            if name == "push" and len(args) == 1:
                if el == "?":
                    at = strip_refs(self.ty_of(args[0]))
                    el = "usize" if at == "lit" else at
                return "%s ++ [%s]" % (P(text), self.coerce(args[0], el)), "vec:" + el
            if name == "extend" and len(args) == 1:
                t2, ty2 = self.tr(args[0])
                if not compat4(ty2, b):
                    self.err("extend of `%s` : %s by `%s` : %s" % (text, b, t2, ty2))
                return "%s ++ %s" % (P(text), P(t2)), more_specific(b, strip_refs(ty2))
            if name == "retain" and len(args) == 1:
                f, fty = self.bind_closure(args[0], ["&" + el], "bool")
                if fty != "bool":
                    self.err("retain with a closure of type %s" % fty)
                return "filter (%s) %s" % (f, P(text)), b
            if name in ("sort", "dedup") and not args:
                if el not in SORT4:
                    self.err("`%s` on a vector of %s (only the derived order / equality of Cube is vocabulary)" % (name, el))
                return "%s %s" % (SORT4[el][0 if name == "sort" else 1], P(text)), b
        if b == "lut":
            if name == "set_bit" and len(args) == 1:
                return "lut4_set_bit %s %s" % (P(text), P(self.coerce(args[0], "usize"))), "lut"
            if name == "set_value" and len(args) == 2:
                return "lut4_set_value %s %s %s" % (P(text), P(self.coerce(args[0], "usize")), P(self.coerce(args[1], "bool"))), "lut"
        if b in STRUCT_OF_TY:
            st = STRUCT_OF_TY[b]
            key = (STRUCT_VOCAB[st]["file"], "impl " + st, name)
            reg = REGISTRY.get(key)
            if reg is not None and not reg.get("mutates"):
                self.err("method `%s` does not take `&mut self`" % name)
            t, rty = self.call_generated(key, [place] + list(args), "method `%s`" % name)
            return t, rty
        self.err("`%s` on `%s` : %s is not a modification of the vocabulary" % (name, text, ty))

    def tr_un(self, e, want):
        op, x = e[1], e[2]
        if op == "&":
            text, ty = self.tr(x, want)
            return text, ("&" + ty) if (ty in STRUCT_OF_TY or ty.startswith("vec:") or ty == "lut") else ty
        if op == "*":
            text, ty = self.tr(x, want)
            return text, ty[1:] if ty.startswith("&") else ty
        if op == "!":
            ty = self.ty_of(x)
            if base_ty(ty) in STRUCT_OF_TY:
                st = STRUCT_OF_TY[base_ty(ty)]
                header = "impl Not for %s%s" % ("&" if ty.startswith("&") else "", st)
                return self.call_generated((STRUCT_VOCAB[st]["file"], header, "not"), [x], "`!`")
        return Translator3.tr_un(self, e, want)

    def call_generated(self, key, args, what):
        reg = REGISTRY.get(key)
        if reg is not None and reg.get("unreachable"):
            self.err("%s resolves to %s, which has a dead-arm parameter" % (what, reg["name"]))
        return Translator3.call_generated(self, key, args, what)

    def tr_call(self, e, want):
        f, args = e[1], e[2]
        if f[0] == "path":
            name = f[1]
            if name == "Vec::new" and not args:
                return "[]", "vec:?"
            if name == "Lut::zero" and len(args) == 1:
                return "lut_new %s" % self.paren(self.coerce(args[0], "nat")), "lut"
            if name.endswith("::from") and len(args) == 1:
                target = name[:-len("::from")]
                ty = self.ty_of(args[0])
                b = base_ty(ty)
                rust = "Lut" if b == "lut" else STRUCT_OF_TY.get(b)
                if rust is None or (target != "Lut" and target not in STRUCT_VOCAB):
                    self.err("`%s` of `%s`" % (name, ty))
                header = "impl From<%s%s> for %s" % ("&" if ty.startswith("&") else "", rust, target)
                file = STRUCT_VOCAB[target]["file"] if target in STRUCT_VOCAB else self.source.rel
                return self.call_generated((file, header, "from"), list(args), "`%s`" % name)
        return Translator3.tr_call(self, e, want)

    def tr_mcall(self, e, want):
        recv, name, args = e[1], e[2], e[3]
        P = self.paren
        text, ty = self.tr(recv, None)
        b = base_ty(ty)
        if is_vec(b):
            el = elem_of(b)
            sel = strip_refs(el)
            # iterating a borrowed vector of structs yields references
            rel = el if (el.startswith("&") or sel not in STRUCT_OF_TY or not ty.startswith("&")) else "&" + el
            if name == "iter" and not args:
                return text, "vec:" + (el if el.startswith("&") or sel not in STRUCT_OF_TY else "&" + el)
            if name in ("clone", "collect", "into_iter", "to_vec") and not args:
                return text, b
            if name == "len" and not args:
                return "length %s" % P(text), "nat"
            if name == "is_empty" and not args:
                return "vec_is_empty %s" % P(text), "bool"
            if name == "first" and not args:
                return "hd_error %s" % P(text), "opt:" + (el if el.startswith("&") or sel not in STRUCT_OF_TY else "&" + el)
            if name in ("all", "any") and len(args) == 1:
                f, fty = self.bind_closure(args[0], [rel], "bool")
                if fty != "bool":
                    self.err("`%s` with a closure of type %s" % (name, fty))
                return "%s (%s) %s" % ("forallb" if name == "all" else "existsb", f, P(text)), "bool"
            if name == "filter" and len(args) == 1:
                f, fty = self.bind_closure(args[0], [el if el.startswith("&") else "&" + el], "bool")
                if fty != "bool":
                    self.err("filter with a closure of type %s" % fty)
                return "filter (%s) %s" % (f, P(text)), b
            if name == "map" and len(args) == 1:
                f, fty = self.bind_closure(args[0], [rel])
                if fty == "lit":
                    fty = "usize"
                return "map (%s) %s" % (f, P(text)), "vec:" + fty
            if name == "flat_map" and len(args) == 1:
                f, fty = self.bind_closure(args[0], [rel])
                if not is_vec(fty):
                    self.err("flat_map with a closure of type %s" % fty)
                return "flat_map (%s) %s" % (f, P(text)), strip_refs(fty)
            if name == "join" and len(args) == 1 and sel == "str":
                return "join %s %s" % (P(self.coerce(args[0], "str")), P(text)), "str"
            self.err("method `%s` on the list `%s` : %s is outside the vocabulary" % (name, text, ty))
        if b == "lut":
            if name == "num_vars" and not args:
                return "nv %s" % P(text), "nat"
            if name == "num_bits" and not args:
                return "num_bits %s" % P(text), "usize"
            if name in ("value", "get_bit") and len(args) == 1:
                return "lut4_value %s %s" % (P(text), P(self.coerce(args[0], "usize"))), "bool"
            if name == "clone" and not args:
                return text, "lut"
            self.err("method `%s` of Lut is outside the vocabulary" % name)
        if name == "clone" and not args and (b in STRUCT_OF_TY or b in INT_WIDTH or b == "bool"):
            return text, b
        if name == "to_string" and not args:
            if b == "str":
                return text, "str"
            if b in DISPLAY4:
                return "%s %s" % (DISPLAY4[b], P(text)), "str"
            self.err("to_string of `%s` : %s" % (text, ty))
        return Translator3.tr_mcall(self, e, want)


# ----------------------------------------------------------------------------------------------
# part 4: what to translate

def S4(name, file, impl, fn, target="value"):
    return {"name": name, "file": file, "impl": impl, "fn": fn, "target": target}


def _ops4(prefix, file, trait, method, ty):
    out = []
    for s, sn in ((ty, "val"), ("&" + ty, "ref")):
        for r, rn in ((ty, "val"), ("&" + ty, "ref")):
            out.append(S4("%s_%s_%s" % (prefix, sn, rn), file, "impl %s<%s> for %s" % (trait, r, s), method))
    return out


def _common4(p, file, st):
    """the functions the three forms share, in dependency order"""
    imp = "impl " + st
    return [
        S4("gx_%s_num_vars" % p, file, imp, "num_vars"),
        S4("gx_%s_zero" % p, file, imp, "zero"),
        S4("gx_%s_one" % p, file, imp, "one"),
        S4("gx_%s_num_cubes" % p, file, imp, "num_cubes"),
        S4("gx_%s_num_lits" % p, file, imp, "num_lits"),
        S4("gx_%s_is_zero" % p, file, imp, "is_zero"),
        S4("gx_%s_is_one" % p, file, imp, "is_one"),
        S4("gx_%s_nth_var" % p, file, imp, "nth_var"),
        S4("gx_%s_nth_var_inv" % p, file, imp, "nth_var_inv"),
        S4("gx_%s_from_cubes_asserts" % p, file, imp, "from_cubes", "asserts"),
        S4("gx_%s_from_cubes" % p, file, imp, "from_cubes"),
        S4("gx_%s_cubes" % p, file, imp, "cubes"),
        S4("gx_%s_value" % p, file, imp, "value"),
    ]


def _to_lut4(p, file, st):
    return [
        S4("gx_%s_display" % p, file, "impl fmt::Display for " + st, "fmt", "written"),
        S4("gx_lut_from_%s_ref" % p, file, "impl From<&%s> for Lut" % st, "from"),
        S4("gx_lut_from_%s_val" % p, file, "impl From<%s> for Lut" % st, "from"),
    ]


SPECS4 = [
    # ---- sop/cube.rs, sop/ecube.rs: what part 2 lists as not translated and part 4 can read
    S4("gx_cube_pos_vars", CUBE, IC, "pos_vars"),
    S4("gx_cube_neg_vars", CUBE, IC, "neg_vars"),
    S4("gx_cube_implies_lut", CUBE, IC, "implies_lut"),
    S4("gx_cube_all", CUBE, IC, "all"),
    S4("gx_ecube_vars", ECUBE, IE, "vars"),
    S4("gx_ecube_implies_lut", ECUBE, IE, "implies_lut"),
    S4("gx_ecube_all", ECUBE, IE, "all"),
    # ---- sop/sop.rs
] + _common4("sop", SOP, "Sop") + [
    S4("gx_sop_simplify", SOP, "impl Sop", "simplify"),
    S4("gx_sop_or_asserts", SOP, "impl Sop", "or", "asserts"),
    S4("gx_sop_or", SOP, "impl Sop", "or"),
    S4("gx_sop_and_asserts", SOP, "impl Sop", "and", "asserts"),
    S4("gx_sop_and", SOP, "impl Sop", "and"),
] + _ops4("gx_sop_bitand", SOP, "BitAnd", "bitand", "Sop") + _ops4("gx_sop_bitor", SOP, "BitOr", "bitor", "Sop") + [
    S4("gx_sop_not_ref", SOP, "impl Not for &Sop", "not"),
    S4("gx_sop_not_val", SOP, "impl Not for Sop", "not"),
    S4("gx_sop_from_lut_ref", SOP, "impl From<&Lut> for Sop", "from"),
    S4("gx_sop_from_lut_val", SOP, "impl From<Lut> for Sop", "from"),
] + _to_lut4("sop", SOP, "Sop") + [
    # ---- sop/esop.rs
] + _common4("esop", ESOP, "Esop") + [
    S4("gx_esop_xor_asserts", ESOP, "impl Esop", "xor", "asserts"),
    S4("gx_esop_xor", ESOP, "impl Esop", "xor"),
    S4("gx_esop_not_ref", ESOP, "impl Not for &Esop", "not"),
    S4("gx_esop_not_val", ESOP, "impl Not for Esop", "not"),
] + _ops4("gx_esop_bitxor", ESOP, "BitXor", "bitxor", "Esop") + [
    S4("gx_esop_from_lut_ref", ESOP, "impl From<&Lut> for Esop", "from"),
    S4("gx_esop_from_lut_val", ESOP, "impl From<Lut> for Esop", "from"),
] + _to_lut4("esop", ESOP, "Esop") + [
    # ---- sop/soes.rs
] + _common4("soes", SOES, "Soes") + [
    S4("gx_soes_or_asserts", SOES, "impl Soes", "or", "asserts"),
    S4("gx_soes_or", SOES, "impl Soes", "or"),
] + _ops4("gx_soes_bitor", SOES, "BitOr", "bitor", "Soes") + _to_lut4("soes", SOES, "Soes")

# functions of sop.rs / esop.rs / soes.rs that are not translated: (file, fn label) -> reason
SKIPPED_FNS4 = {}
# functions of cube.rs / ecube.rs that neither part 2 nor part 4 translates (they stay listed in the trailer of Exprs2.v)
STILL_SKIPPED_CUBE4 = {
    (CUBE, "impl fmt::Display for Cube :: fn fmt"): "`while` loop shifting the masks and write! with placeholders (Model cube_display, "
                                                    "property C16)",
    (ECUBE, "impl fmt::Display for Ecube :: fn fmt"): "`while` loop shifting the mask and format! with placeholders (Model "
                                                      "ecube_display, property C16)",
}
# functions of which part 2 translates one statement and part 4 the whole body
BOTH_PARTS4 = {
    (CUBE, IC + " :: fn all"): "Exprs2.v has the bound `let mx: u32 = 1 << vars` and its shift check (gx_cube_all_mx, gx_cube_all_mx_shift_ok)",
    (ECUBE, IE + " :: fn all"): "Exprs2.v has the bound `let mx: u32 = 1 << vars` and its shift check (gx_ecube_all_mx, gx_ecube_all_mx_shift_ok)",
}
NOT_TIED4 = [
    "the Lut methods used by the conversions and by implies_lut are vocabulary, not read from src/lut.rs: num_vars() -> nv, "
    "num_bits() -> Api.num_bits, value(m) / get_bit(m) -> tget (tbl l) m, set_bit(m) -> tset (tbl l) m true, "
    "set_value(m, b) -> tset (tbl l) m b, Lut::zero(n) -> lut_new n, clone() -> identity; their range checks (check_bit) are "
    "not emitted (every mask of the loops is below num_bits)",
    "Vec::sort() / Vec::dedup() on Vec<Cube> are vocabulary: cube_sort (insertion sort on the derived order cube_cmp) and "
    "cube_dedup of Model/TwoLevel.v; the derived PartialOrd / PartialEq of Cube are tied by the field order check of part 2",
    "to_string() of a Cube / Ecube is cube_display / ecube_display of the model (their Display impls contain `while` loops "
    "and are not translated); `.join(sep)` is Model join; `.collect::<Vec<_>>()` is the identity on lists",
    "assert! / assert_eq! lines are generated as booleans (the *_asserts definitions); that a failing one panics - "
    "`always b ;; ..` in the model - is the reading of the macro, and Gen/Guards.v records the lines themselves",
    "the dev-profile overflow checks of `ret += c.num_lits()` (usize addition; plain N addition on both sides) and the "
    "shift checks inside Cube::nth_var(l) / Cube::nth_var_inv(l) called by `!&Sop` (l comes from pos_vars() / neg_vars(), "
    "hence l < 32; ExprsTie4 uses the unchecked values gx_cube_nth_var l, the checks are gx_cube_nth_var_shift_ok of Exprs2.v)",
    "Sop::nth_var / nth_var_inv, num_vars(), cubes() of the three forms have no counterpart in Model/TwoLevel.v (the model "
    "uses the record fields and the cube constructors directly); ExprsTie4 states them against those",
    "the callee's assertions are not re-emitted at a call site: `ret & s` in `!&Sop` is gx_sop_and without "
    "gx_sop_and_asserts; ExprsTie4.tie_sop_not proves that the model's check never fires there",
    "Cube::all / Ecube::all: the dev-profile check of `1 << vars` is not emitted here (it is gx_cube_all_mx_shift_ok / "
    "gx_ecube_all_mx_shift_ok of Exprs2.v; ExprsTie4 states the ties under that check)",
    "the Display impls of Cube / Ecube (see the list above)",
]


def fn_params4(fn):
    out = []
    for n, t in fn.info["params"]:
        if t == "usize" and n in NAT_PARAMS4:
            t = "nat"
        out.append((n, t))
    return out


def all_stmts(block):
    for s in block:
        yield s
        if s.kind == "for":
            yield from all_stmts(s.body)
        elif s.kind == "if":
            for _, b in s.branches:
                yield from all_stmts(b)


def build_definition4(fn, spec, mut_methods):
    target = spec["target"]
    conv = Conv4(fn, mut_methods)
    params = fn_params4(fn)
    ret = fn.info["ret"]
    mutates = False
    if target == "value":
        if fn.info.get("mut_self"):
            if ret != "unit":
                fail("%s: a `&mut self` method that returns a value is outside the translated fragment" % fn.where)
            mutates = True
            ret = base_ty(dict(params)["self"])
            expr = conv.value(fn.body, ("path", "self"))
        else:
            expr = conv.value(fn.body, None)
    elif target == "asserts":
        parts = conv.asserts(fn.body)
        if not parts:
            fail("%s: no assertion left in the body (the definition %s is listed for them)" % (fn.where, spec["name"]))
        expr = parts[0] if len(parts) == 1 else ("conj", tuple(parts))
        ret = "bool"
    elif target == "written":
        params = [(n, t) for n, t in params if not t.startswith("opaque:")]
        expr = conv.written(fn.body)
        ret = "str"
    else:
        fail("internal: unknown target kind %s" % target)
    for n, t in params:
        if t.startswith("opaque") or t == "unit":
            fail("%s: parameter %s has the type %s, which is outside the vocabulary" % (fn.where, n, t))
    if ret.startswith("opaque") or ret == "unit":
        fail("%s: return type %s is outside the vocabulary" % (fn.where, ret))
    tr = Translator4(fn.where, dict(params), [], fn.source, {})
    body, ty = tr.tr(expr, ret)
    if not (ty == ret or (ty == "lit" and is_int(ret)) or compat4(ty, ret) or (ty == "nat" and ret == "usize")):
        fail("%s: the body has type %s, the declared return type is %s" % (fn.where, ty, ret))
    if ty == "nat" and ret == "usize":
        ret = "nat"    # x.len(): a length stays a nat (as in the model)
    ret = strip_refs(ret)
    unreachable = tr.shared["unreachable"]
    if unreachable:
        params = params + [("unreachable", unreachable)]
    binders = " ".join("(%s : %s)" % (cid(p), coq_type4(t, fn.where)) for p, t in params)
    text = "Definition %s%s : %s :=\n  %s." % (spec["name"], (" " + binders) if binders else "", coq_type4(ret, fn.where), body)
    if target == "value":
        REGISTRY[(fn.file, fn.impl, fn.name)] = {"name": spec["name"], "params": [t for n, t in params if n != "unreachable"],
                                                 "ret": ret, "mutates": mutates, "unreachable": bool(unreachable)}
    return {"name": spec["name"], "text": text, "file": fn.file, "impl": fn.impl, "fn": fn.name, "target": target,
            "calls": list(dict.fromkeys(tr.calls)), "src": " ".join(fn.src.split()), "unreachable": unreachable,
            "params": params, "type": ret}


def generate4():
    if not REGISTRY or not any(k[0] == CUBE for k in REGISTRY):
        generate2()
    saved_registry = dict(REGISTRY)
    saved_sources = {rel: SOURCES2.get(rel) for rel in FILES4}
    defs = []
    fn_cache = {}
    ALLOW_MATCH[0] = True
    RUST_TYPE_EXTRA[0] = rust_type4
    STRUCT_VOCAB.update(STRUCT_VOCAB4)
    STRUCT_OF_TY.update({v["ty"]: k for k, v in STRUCT_VOCAB4.items()})
    STRUCT_NAMES.update(STRUCT_VOCAB4)
    try:
        sources = {}
        for rel in FILES4:
            sources[rel] = Source2(rel)     # re-read with the types of part 4
        SOURCES2.update(sources)
        mut_methods = set(VEC_MUT_METHODS) | set(LUT_MUT_METHODS)
        for rel in FILES4:
            for key in sources[rel].order:
                if sources[rel].fns[key].get("mut_self"):
                    mut_methods.add(key[1])
        for spec in SPECS4:
            src = sources[spec["file"]]
            key = (spec["impl"], spec["fn"])
            if key not in src.fns:
                fail("%s: %s not found" % (spec["file"], fn_label(*key)))
            ck = (spec["file"],) + key
            if ck not in fn_cache:
                fn_cache[ck] = Fn2(src, key)
            defs.append(build_definition4(fn_cache[ck], spec, mut_methods))
        # coverage: every statement of a translated function is consumed; assertions need their own definition
        for ck, fn in fn_cache.items():
            for s in all_stmts(fn.body):
                if getattr(s, "skipped_assert", False) and not s.covered:
                    fail("%s: `%s`: the assertion is skipped by the value and no `asserts` definition is listed for the "
                         "function" % (fn.where, stmt_text(fn, s)))
                if not s.covered:
                    fail("%s: `%s`: statement is not accounted for by any generated definition" % (fn.where, stmt_text(fn, s)))
        # every fn of the three files is translated or listed; the leftovers of cube.rs / ecube.rs are exactly the listed ones
        for rel in FILES4_FULL:
            for key in sources[rel].order:
                lab = (rel, fn_label(*key))
                listed = lab in SKIPPED_FNS4
                translated = (rel,) + key in fn_cache
                if listed == translated:
                    fail("%s: %s is %s" % (rel, lab[1], "both translated and listed as skipped" if listed else
                                           "neither translated nor listed in SKIPPED_FNS4"))
        for lab in SKIPPED_FNS4:
            if not any(lab == (rel, fn_label(*key)) for rel in FILES4_FULL for key in sources[rel].order):
                fail("the skip list of part 4 names %s: %s, which does not exist" % lab)
        for rel in (CUBE, ECUBE):
            for key in sources[rel].order:
                lab = (rel, fn_label(*key))
                in2 = lab not in SKIPPED_FNS2
                in4 = (rel,) + key in fn_cache
                listed = lab in STILL_SKIPPED_CUBE4
                if in2 and in4 and lab in BOTH_PARTS4:
                    continue
                if in2 and (in4 or listed):
                    fail("%s: %s is translated (at least in part) by part 2 and named by part 4" % lab)
                if not in2 and in4 == listed:
                    fail("%s: %s is %s" % (rel, lab[1], "both translated by part 4 and listed as skipped" if listed else
                                           "translated by no part and not listed in STILL_SKIPPED_CUBE4"))
        for lab in STILL_SKIPPED_CUBE4:
            if lab not in SKIPPED_FNS2:
                fail("the skip list of part 4 names %s: %s, which part 2 does not list" % lab)
        for lab in BOTH_PARTS4:
            if (lab[0],) + tuple(lab[1].split(" :: fn ")) not in fn_cache or lab in SKIPPED_FNS2:
                fail("BOTH_PARTS4 names %s: %s, which parts 2 and 4 do not both translate" % lab)
    finally:
        ALLOW_MATCH[0] = False
        RUST_TYPE_EXTRA[0] = None
        for k in STRUCT_VOCAB4:
            STRUCT_VOCAB.pop(k, None)
            STRUCT_NAMES.discard(k)
        for v in STRUCT_VOCAB4.values():
            STRUCT_OF_TY.pop(v["ty"], None)
        for rel in FILES4:
            if saved_sources[rel] is None:
                SOURCES2.pop(rel, None)
            else:
                SOURCES2[rel] = saved_sources[rel]
        REGISTRY.clear()
        REGISTRY.update(saved_registry)

    L = []
    L.append("(* GENERATED by gen/gen_exprs.py (part 4) from src/sop/sop.rs, src/sop/esop.rs, src/sop/soes.rs and from what")
    L.append("   Gen/Exprs2.v leaves of src/sop/cube.rs, src/sop/ecube.rs - do not edit.")
    L.append("   Whole function bodies, translated from the Rust source text on every run by a state-passing reading of the")
    L.append("   statement blocks: `let` / re-binding for assignments, fold_left for `for` loops over the variables the loop")
    L.append("   modifies, forallb / existsb for search loops, record rebuilding for field updates, lists for vectors and")
    L.append("   iterators (push -> ++ [x], extend -> ++, retain / filter -> filter, map -> map, all -> forallb, first ->")
    L.append("   hd_error), byte lists for the text written by Display::fmt.  `num_vars` is a nat, other usize values are N.")
    L.append("   Proofs/ExprsTie4.v proves that each definition is (extensionally) the function of Model/TwoLevel.v. *)")
    L.append("From Coq Require Import List NArith Arith Bool.")
    L.append("From V Require Import Base.Res Gen.Tables Model.Kernels Model.TwoLevel Model.Api Gen.Exprs2.")
    L.append("Import ListNotations.")
    L.append("Open Scope N_scope.")
    L.append("")
    L.append("(* vocabulary that is not read from the source *)")
    L.append("(* v.is_empty() *)")
    L.append("Definition vec_is_empty {A : Type} (l : list A) : bool := match l with [] => true | _ :: _ => false end.")
    L.append("(* lo..hi on usize *)")
    L.append("Definition range4 (lo hi : N) : list N := map N.of_nat (seq (N.to_nat lo) (N.to_nat hi - N.to_nat lo)).")
    L.append("(* Lut::value / get_bit, set_bit, set_value without their range check (src/lut.rs is not read here) *)")
    L.append("Definition lut4_value (l : lut) (m : N) : bool := tget (tbl l) m.")
    L.append("Definition lut4_set_bit (l : lut) (m : N) : lut := mkLut (nv l) (tset (tbl l) m true).")
    L.append("Definition lut4_set_value (l : lut) (m : N) (b : bool) : lut := mkLut (nv l) (tset (tbl l) m b).")
    L.append("")
    for d in defs:
        loc = "%s: %s" % (d["file"].replace("src/", ""), fn_label(d["impl"], d["fn"]))
        what = {"value": "whole body", "asserts": "the assertions of the body", "written": "the text written by the body"}[d["target"]]
        cm = "(* %s, %s\n   `%s`" % (loc, what, coq_comment(d["src"]))
        if d["unreachable"]:
            cm += "\n   the arm `panic!()` is the parameter `unreachable`"
        if d["calls"]:
            cm += "\n   forwards to " + ", ".join(d["calls"])
        cm += " *)"
        L.append(cm)
        L.append(d["text"])
        L.append("")
    L.append("(* functions of sop.rs / esop.rs / soes.rs that are NOT translated:")
    for (file, lab), why in sorted(SKIPPED_FNS4.items()):
        L.append("   %s: %s - %s" % (file.replace("src/", ""), lab, coq_comment(why)))
    if not SKIPPED_FNS4:
        L.append("   (none)")
    L.append("   functions of cube.rs / ecube.rs translated as a whole here and in one statement by Gen/Exprs2.v:")
    for (file, lab), why in sorted(BOTH_PARTS4.items()):
        L.append("   %s: %s - %s" % (file.replace("src/", ""), lab, coq_comment(why)))
    L.append("   functions of cube.rs / ecube.rs that neither Gen/Exprs2.v nor this file translates:")
    for (file, lab), why in sorted(STILL_SKIPPED_CUBE4.items()):
        L.append("   %s: %s - %s" % (file.replace("src/", ""), lab, coq_comment(why)))
    L.append("   NOT_TIED4 - what the definitions above and Proofs/ExprsTie4.v do not tie:")
    for t in NOT_TIED4:
        L.append("   - " + coq_comment(t))
    L.append("*)")
    L.append("")
    return "\n".join(L), defs


def main(verbose=False, out_dir=None):
    """regenerates coq/Gen/Exprs.v, coq/Gen/Exprs2.v, coq/Gen/Exprs3.v and coq/Gen/Exprs4.v (or <out_dir>/...); returns
    True when a file content changed"""
    out = out_dir or os.environ.get("VERIF_EXPRS_OUT") or COQ
    content, defs = generate()
    changed = G.write_if_changed(os.path.join(out, "Exprs.v"), content)
    content2, defs2 = generate2()
    changed2 = G.write_if_changed(os.path.join(out, "Exprs2.v"), content2)
    content3, defs3 = generate3()
    changed3 = G.write_if_changed(os.path.join(out, "Exprs3.v"), content3)
    content4, defs4 = generate4()
    changed4 = G.write_if_changed(os.path.join(out, "Exprs4.v"), content4)
    if verbose:
        for d in defs:
            print("%-28s %s: %s%s  `%s`" % (d["name"], d["file"], d["fn"],
                                            (" [" + ", ".join(d["path"]) + "]") if d["path"] else "", d["stmt"]))
        print("Exprs.v %s (%d definitions)" % ("rewritten" if changed else "unchanged", len(defs)))
        for d in defs2:
            print("%-28s %s: %s%s  %s" % (d["name"], d["file"], fn_label(d["impl"], d["fn"]),
                                          (" [" + ", ".join(d["path"]) + "]") if d["path"] else "",
                                          ("`%s`" % d["stmt"]) if d["stmt"] else "(whole body)" if d["src"] else "(region value)"))
        print("Exprs2.v %s (%d definitions, %d shift checks)" % ("rewritten" if changed2 else "unchanged", len(defs2),
                                                                   sum(1 for d in defs2 if d["guard"])))
        for d in defs3:
            print("%-28s %s: %s%s  %s" % (d["name"], d["file"], fn_label(d["impl"], d["fn"]),
                                          (" [" + ", ".join(d["path"]) + "]") if d["path"] else "",
                                          d["label"] or (("`%s`" % d["stmt"]) if d["stmt"] else "(whole body)")))
        print("Exprs3.v %s (%d definitions, %d shift checks)" % ("rewritten" if changed3 else "unchanged", len(defs3),
                                                                   sum(1 for d in defs3 if d["guard"])))
        for d in defs4:
            print("%-28s %s: %s  (%s)" % (d["name"], d["file"], fn_label(d["impl"], d["fn"]),
                                          {"value": "whole body", "asserts": "assertions", "written": "written text"}[d["target"]]))
        print("Exprs4.v %s (%d definitions: %s)" % (
            "rewritten" if changed4 else "unchanged", len(defs4),
            ", ".join("%d from %s" % (sum(1 for d in defs4 if d["file"] == f), f.replace("src/", "")) for f in FILES4)))
    return changed or changed2 or changed3 or changed4


if __name__ == "__main__":
    main(verbose="-q" not in sys.argv[1:])
