//! Generators for the two-level forms (C12..C16)
use crate::{all_tables, call, fb, fbytes, fcmp, fl, flist, fx, gen_table, Ctx, Kind};
use volute::sop::{Cube, Ecube, Esop, Soes, Sop};
use volute::Lut;

pub fn cube_masks(c: &Cube) -> (u32, u32) {
    let mut p = 0u32;
    for v in c.pos_vars() {
        p |= 1 << v;
    }
    let mut q = 0u32;
    for v in c.neg_vars() {
        q |= 1 << v;
    }
    (p, q)
}
pub fn fcube(c: &Cube) -> String {
    let (p, q) = cube_masks(c);
    format!("{:x}/{:x}", p, q)
}
pub fn fcubes(cs: &[Cube]) -> String {
    if cs.is_empty() {
        "-".to_string()
    } else {
        cs.iter().map(fcube).collect::<Vec<_>>().join(";")
    }
}
pub fn fecube(e: &Ecube) -> String {
    let mut v = 0u32;
    for x in e.vars() {
        v |= 1 << x;
    }
    format!("{:x}/{}", v, fb(e.value(0)))
}
pub fn fecubes(es: &[Ecube]) -> String {
    if es.is_empty() {
        "-".to_string()
    } else {
        es.iter().map(fecube).collect::<Vec<_>>().join(";")
    }
}
pub fn fsop(s: &Sop) -> String {
    format!("{}:{}", s.num_vars(), fcubes(s.cubes()))
}
pub fn fesop(s: &Esop) -> String {
    format!("{}:{}", s.num_vars(), fcubes(s.cubes()))
}
pub fn fsoes(s: &Soes) -> String {
    format!("{}:{}", s.num_vars(), fecubes(s.cubes()))
}
fn fusizes(v: &[usize]) -> String {
    flist(&v.iter().map(|x| *x as u64).collect::<Vec<_>>())
}

fn all_cubes(n: usize) -> Vec<Cube> {
    let mut v: Vec<Cube> = Cube::all(n).collect();
    v.push(Cube::zero());
    v
}

fn random_cube(c: &mut Ctx, n: usize) -> Cube {
    // mostly non-contradictory
    let m = if n >= 32 { !0u32 } else { (1u32 << n) - 1 };
    let a = (c.rng.next() as u32) & m;
    let b = (c.rng.next() as u32) & m;
    let d = (c.rng.next() as u32) & m;
    match c.rng.below(8) {
        0 => Cube::from_mask(a, b),
        1 => Cube::from_mask(a & d, a & d & b),
        2 => Cube::one(),
        3 => Cube::zero(),
        _ => Cube::from_mask(a & !b & d, b & !a & d),
    }
}

fn cube_unary(c: &mut Ctx, x: &Cube) {
    let a = [fcube(x)];
    c.emit("c.num_lits", "-", &a, call(|| x.num_lits()).map(fx));
    c.emit("c.num_gates", "-", &a, call(|| x.num_gates()).map(fx));
    c.emit("c.pos_vars", "-", &a, call(|| x.pos_vars().collect::<Vec<_>>()).map(|v| fusizes(&v)));
    c.emit("c.neg_vars", "-", &a, call(|| x.neg_vars().collect::<Vec<_>>()).map(|v| fusizes(&v)));
    c.emit("c.is_zero", "-", &a, call(|| x.is_zero()).map(fb));
    c.emit("c.is_one", "-", &a, call(|| x.is_one()).map(fb));
    c.emit("c.is_constant", "-", &a, call(|| x.is_constant()).map(fb));
    c.emit("c.display", "-", &a, call(|| x.to_string()).map(|s| fbytes(s.as_bytes())));
}

fn cube_binary(c: &mut Ctx, x: &Cube, y: &Cube, forms: bool) {
    let a = [fcube(x), fcube(y)];
    c.emit("c.and.val_val", "-", &a, call(|| *x & *y).map(|r| fcube(&r)));
    if forms {
        c.emit("c.and.ref_val", "-", &a, call(|| x & *y).map(|r| fcube(&r)));
        c.emit("c.and.ref_ref", "-", &a, call(|| x & y).map(|r| fcube(&r)));
        c.emit("c.and.val_ref", "-", &a, call(|| *x & y).map(|r| fcube(&r)));
    }
    c.emit("c.implies", "-", &a, call(|| x.implies(*y)).map(fb));
    c.emit("c.intersects", "-", &a, call(|| x.intersects(*y)).map(fb));
    c.emit("c.eq", "-", &a, call(|| x == y).map(fb));
    c.emit("c.cmp", "-", &a, call(|| x.cmp(y)).map(fcmp));
}

pub fn c12(c: &mut Ctx) {
    c.emit("c.one", "-", &[], Some(fcube(&Cube::one())));
    c.emit("c.zero", "-", &[], Some(fcube(&Cube::zero())));
    for v in 0..=33usize {
        c.emit("c.nth_var", "-", &[fx(v)], call(|| Cube::nth_var(v)).map(|r| fcube(&r)));
        c.emit("c.nth_var_inv", "-", &[fx(v)], call(|| Cube::nth_var_inv(v)).map(|r| fcube(&r)));
    }
    for n in 0..=33usize {
        for _ in 0..3 {
            let m = match c.rng.below(3) {
                0 => c.rng.next() as usize,
                1 => (c.rng.next() as usize) & 0xffff_ffff,
                _ => c.rng.below(1usize << n.min(40)),
            };
            c.emit("c.minterm", "-", &[fx(n), fx(m)], call(|| Cube::minterm(n, m)).map(|r| fcube(&r)));
        }
    }
    for n in 0..=6usize {
        c.emit("c.all", "-", &[fx(n)], call(|| Cube::all(n).collect::<Vec<_>>()).map(|v| fcubes(&v)));
    }
    // exhaustive over small n
    let top = if c.thorough { 4 } else { 3 };
    for n in 0..=top {
        let cubes = all_cubes(n);
        for x in cubes.iter() {
            cube_unary(c, x);
            for m in 0..(1usize << n) {
                c.emit("c.value", "-", &[fcube(x), fx(m)], call(|| x.value(m)).map(fb));
            }
            for y in cubes.iter() {
                cube_binary(c, x, y, n <= 2);
            }
        }
    }
    if c.thorough {
        // n = 5: all pairs, fewer operations
        let cubes = all_cubes(5);
        for x in cubes.iter() {
            for y in cubes.iter() {
                let a = [fcube(x), fcube(y)];
                c.emit("c.and.val_val", "-", &a, call(|| *x & *y).map(|r| fcube(&r)));
                c.emit("c.implies", "-", &a, call(|| x.implies(*y)).map(fb));
                c.emit("c.intersects", "-", &a, call(|| x.intersects(*y)).map(fb));
            }
        }
    } else {
        let cubes = all_cubes(5);
        for _ in 0..1500 {
            let x = cubes[c.rng.below(cubes.len())];
            let y = cubes[c.rng.below(cubes.len())];
            cube_binary(c, &x, &y, false);
        }
    }
    // random cubes over up to 32 variables
    let k = if c.thorough { 3000 } else { 500 };
    for _ in 0..k {
        let n = 1 + c.rng.below(32);
        let x = random_cube(c, n);
        let y = random_cube(c, n);
        cube_unary(c, &x);
        cube_binary(c, &x, &y, true);
        if !x.is_zero() {
            // near-equal pairs: one literal added, removed or complemented, on the last variable half of the time
            let v = if c.rng.coin() { n - 1 } else { c.rng.below(n) };
            let (p, q) = cube_masks(&x);
            let b = 1u32 << v;
            let (p2, q2) = if p & b != 0 { (p & !b, q | b) } else if q & b != 0 { (p, q & !b) } else { (p | b, q) };
            let y2 = Cube::from_mask(p2, q2);
            cube_binary(c, &x, &y2, false);
            cube_binary(c, &y2, &x, false);
        }
        for _ in 0..3 {
            let m = match c.rng.below(3) {
                0 => c.rng.next() as usize,
                1 => {
                    // an assignment satisfying x when there is one
                    let (p, _) = cube_masks(&x);
                    p as usize | ((c.rng.next() as usize) & !(cube_masks(&x).1 as usize) & 0xffff_ffff)
                }
                _ => (c.rng.next() as usize) & 0xffff_ffff,
            };
            c.emit("c.value", "-", &[fcube(&x), fx(m)], call(|| x.value(m)).map(fb));
        }
        // from_vars / from_mask
        let (p, q) = (c.rng.next() as u32, c.rng.next() as u32);
        let (p, q) = if c.rng.coin() { (p & !q, q & !p) } else { (p & 0xff, q & 0xff00 | (p & 1)) };
        c.emit("c.from_mask", "-", &[format!("{:x}", p), format!("{:x}", q)], call(|| Cube::from_mask(p, q)).map(|r| fcube(&r)));
        let pv: Vec<usize> = (0..c.rng.below(4)).map(|_| { let top = if c.rng.below(20) == 0 { 34 } else { 32 }; c.rng.below(top) }).collect();
        let nv: Vec<usize> = (0..c.rng.below(4)).map(|_| c.rng.below(32)).collect();
        c.emit("c.from_vars", "-", &[fusizes(&pv), fusizes(&nv)], call(|| Cube::from_vars(&pv, &nv)).map(|r| fcube(&r)));
    }
    // implies_lut
    for n in 0..=(if c.thorough { 4 } else { 3 }) {
        let cubes = all_cubes(n);
        let tables: Vec<Vec<u64>> = if n <= 2 || (n == 3 && c.thorough) {
            all_tables(n)
        } else {
            (0..12).map(|i| gen_table(&mut c.rng, n, crate::KINDS[i % crate::KINDS.len()])).collect()
        };
        for t in tables.iter() {
            let l = Lut::from_blocks(n, t);
            for x in cubes.iter() {
                c.emit("c.implies_lut", "-", &[fcube(x), fl(&l)], call(|| x.implies_lut(&l)).map(fb));
            }
        }
    }
}

fn all_ecubes(n: usize) -> Vec<Ecube> {
    Ecube::all(n).collect()
}

fn random_ecube(c: &mut Ctx, n: usize) -> Ecube {
    let vars: Vec<usize> = (0..n).filter(|_| c.rng.below(3) == 0).collect();
    Ecube::from_vars(&vars, c.rng.coin())
}

fn ecube_unary(c: &mut Ctx, x: &Ecube) {
    let a = [fecube(x)];
    c.emit("e.num_lits", "-", &a, call(|| x.num_lits()).map(fx));
    c.emit("e.num_gates", "-", &a, call(|| x.num_gates()).map(fx));
    c.emit("e.vars", "-", &a, call(|| x.vars().collect::<Vec<_>>()).map(|v| fusizes(&v)));
    c.emit("e.is_zero", "-", &a, call(|| x.is_zero()).map(fb));
    c.emit("e.is_one", "-", &a, call(|| x.is_one()).map(fb));
    c.emit("e.not.val", "-", &a, call(|| !*x).map(|r| fecube(&r)));
    c.emit("e.not.ref", "-", &a, call(|| !x).map(|r| fecube(&r)));
    c.emit("e.display", "-", &a, call(|| x.to_string()).map(|s| fbytes(s.as_bytes())));
}

fn ecube_binary(c: &mut Ctx, x: &Ecube, y: &Ecube, forms: bool) {
    let a = [fecube(x), fecube(y)];
    c.emit("e.xor.val_val", "-", &a, call(|| *x ^ *y).map(|r| fecube(&r)));
    if forms {
        c.emit("e.xor.ref_val", "-", &a, call(|| x ^ *y).map(|r| fecube(&r)));
        c.emit("e.xor.ref_ref", "-", &a, call(|| x ^ y).map(|r| fecube(&r)));
        c.emit("e.xor.val_ref", "-", &a, call(|| *x ^ y).map(|r| fecube(&r)));
    }
    c.emit("e.eq", "-", &a, call(|| x == y).map(fb));
    c.emit("e.cmp", "-", &a, call(|| x.cmp(y)).map(fcmp));
}

fn random_soes(c: &mut Ctx, n: usize, maxterms: usize) -> Soes {
    let k = c.rng.below(maxterms + 1);
    let es: Vec<Ecube> = (0..k).map(|_| random_ecube(c, n)).collect();
    Soes::from_cubes(n, es)
}

fn soes_ops(c: &mut Ctx, s: &Soes) {
    let a = [fsoes(s)];
    c.emit("o.num_cubes", "-", &a, call(|| s.num_cubes()).map(|v| v.to_string()));
    c.emit("o.num_lits", "-", &a, call(|| s.num_lits()).map(fx));
    c.emit("o.is_zero", "-", &a, call(|| s.is_zero()).map(fb));
    c.emit("o.is_one", "-", &a, call(|| s.is_one()).map(fb));
    c.emit("o.to_lut", "-", &a, call(|| Lut::from(s)).map(|l| fl(&l)));
    c.emit("o.to_lut.val", "-", &a, call(|| Lut::from(s.clone())).map(|l| fl(&l)));
    c.emit("o.display", "-", &a, call(|| s.to_string()).map(|x| fbytes(x.as_bytes())));
    let n = s.num_vars();
    for _ in 0..3 {
        let m = c.rng.below(1 << n);
        c.emit("o.value", "-", &[fsoes(s), fx(m)], call(|| s.value(m)).map(fb));
    }
}

pub fn c13(c: &mut Ctx) {
    c.emit("e.one", "-", &[], Some(fecube(&Ecube::one())));
    c.emit("e.zero", "-", &[], Some(fecube(&Ecube::zero())));
    for v in 0..=33usize {
        c.emit("e.nth_var", "-", &[fx(v)], call(|| Ecube::nth_var(v)).map(|r| fecube(&r)));
        c.emit("e.nth_var_inv", "-", &[fx(v)], call(|| Ecube::nth_var_inv(v)).map(|r| fecube(&r)));
    }
    for n in 0..=8usize {
        c.emit("e.all", "-", &[fx(n)], call(|| Ecube::all(n).collect::<Vec<_>>()).map(|v| fecubes(&v)));
    }
    let top = if c.thorough { 5 } else { 4 };
    for n in 0..=top {
        let es = all_ecubes(n);
        for x in es.iter() {
            ecube_unary(c, x);
            for m in 0..(1usize << n) {
                c.emit("e.value", "-", &[fecube(x), fx(m)], call(|| x.value(m)).map(fb));
            }
            for y in es.iter() {
                ecube_binary(c, x, y, n <= 2);
            }
        }
    }
    let k = if c.thorough { 3000 } else { 600 };
    for _ in 0..k {
        let n = 1 + c.rng.below(32);
        let x = random_ecube(c, n);
        let y = random_ecube(c, n);
        ecube_unary(c, &x);
        ecube_binary(c, &x, &y, true);
        {
            // near-equal pairs: one variable toggled, the last one of the range half of the time
            let v = if c.rng.coin() { n - 1 } else { c.rng.below(n) };
            let mut vs: Vec<usize> = x.vars().collect();
            if let Some(i) = vs.iter().position(|w| *w == v) {
                vs.remove(i);
            } else {
                vs.push(v);
            }
            let y2 = Ecube::from_vars(&vs, x.value(0));
            ecube_binary(c, &x, &y2, false);
            ecube_binary(c, &y2, &x, false);
        }
        for _ in 0..3 {
            let m = if c.rng.coin() { c.rng.next() as usize } else { (c.rng.next() as usize) & 0xffff_ffff };
            c.emit("e.value", "-", &[fecube(&x), fx(m)], call(|| x.value(m)).map(fb));
        }
        let vs: Vec<usize> = (0..c.rng.below(5)).map(|_| { let top = if c.rng.below(20) == 0 { 34 } else { 32 }; c.rng.below(top) }).collect();
        let xn = c.rng.coin();
        c.emit("e.from_vars", "-", &[fusizes(&vs), fb(xn)], call(|| Ecube::from_vars(&vs, xn)).map(|r| fecube(&r)));
    }
    for n in 0..=3usize {
        let es = all_ecubes(n);
        let tables: Vec<Vec<u64>> = if n <= 2 { all_tables(n) } else { (0..12).map(|i| gen_table(&mut c.rng, n, crate::KINDS[i % crate::KINDS.len()])).collect() };
        for t in tables.iter() {
            let l = Lut::from_blocks(n, t);
            for x in es.iter() {
                c.emit("e.implies_lut", "-", &[fecube(x), fl(&l)], call(|| x.implies_lut(&l)).map(fb));
            }
        }
    }
    // Soes
    for n in 0..=8usize {
        c.emit("o.zero", "-", &[n.to_string()], Some(fsoes(&Soes::zero(n))));
        c.emit("o.one", "-", &[n.to_string()], Some(fsoes(&Soes::one(n))));
        for v in 0..n {
            c.emit("o.nth_var", "-", &[n.to_string(), fx(v)], call(|| Soes::nth_var(n, v)).map(|s| fsoes(&s)));
            c.emit("o.nth_var_inv", "-", &[n.to_string(), fx(v)], call(|| Soes::nth_var_inv(n, v)).map(|s| fsoes(&s)));
        }
    }
    // all Soes with <= 2 terms over n <= 3
    for n in 0..=3usize {
        let es = all_ecubes(n);
        soes_ops(c, &Soes::from_cubes(n, vec![]));
        for x in es.iter() {
            soes_ops(c, &Soes::from_cubes(n, vec![*x]));
            for y in es.iter() {
                if n <= 2 || c.thorough || c.rng.below(4) == 0 {
                    soes_ops(c, &Soes::from_cubes(n, vec![*x, *y]));
                }
            }
        }
    }
    let k = if c.thorough { 1500 } else { 300 };
    for _ in 0..k {
        let n = c.rng.below(9);
        let s = random_soes(c, n, 4);
        let t = random_soes(c, n, 4);
        soes_ops(c, &s);
        let a = [fsoes(&s), fsoes(&t)];
        c.emit("o.or.val_val", "-", &a, call(|| s.clone() | t.clone()).map(|r| fsoes(&r)));
        c.emit("o.or.ref_val", "-", &a, call(|| &s | t.clone()).map(|r| fsoes(&r)));
        c.emit("o.or.ref_ref", "-", &a, call(|| &s | &t).map(|r| fsoes(&r)));
        c.emit("o.or.val_ref", "-", &a, call(|| s.clone() | &t).map(|r| fsoes(&r)));
        // from_cubes with a variable out of range panics
        if c.rng.below(10) == 0 && n < 31 {
            let bad = vec![Ecube::nth_var(n + c.rng.below(2))];
            c.emit("o.from_cubes", "-", &[n.to_string(), fecubes(&bad)], call(|| Soes::from_cubes(n, bad.clone())).map(|r| fsoes(&r)));
        }
        let es: Vec<Ecube> = s.cubes().to_vec();
        c.emit("o.from_cubes", "-", &[n.to_string(), fecubes(&es)], call(|| Soes::from_cubes(n, es.clone())).map(|r| fsoes(&r)));
    }
    // different variable counts
    let s = Soes::one(2);
    let t = Soes::one(3);
    c.emit("o.or.ref_ref", "-", &[fsoes(&s), fsoes(&t)], call(|| &s | &t).map(|r| fsoes(&r)));
}

fn random_cube_list(c: &mut Ctx, n: usize, maxlen: usize) -> Vec<Cube> {
    let k = c.rng.below(maxlen + 1);
    let mut v: Vec<Cube> = Vec::new();
    for _ in 0..k {
        let x = match c.rng.below(6) {
            0 if !v.is_empty() => v[c.rng.below(v.len())],                       // duplicate
            1 if !v.is_empty() => v[c.rng.below(v.len())] & random_cube(c, n),   // nested
            _ => random_cube(c, n),
        };
        // the zero cube cannot go through from_cubes for n < 32
        if x.is_zero() {
            continue;
        }
        v.push(x);
    }
    v
}

fn sop_ops(c: &mut Ctx, s: &Sop) {
    let a = [fsop(s)];
    c.emit("s.num_cubes", "-", &a, call(|| s.num_cubes()).map(|v| v.to_string()));
    c.emit("s.num_lits", "-", &a, call(|| s.num_lits()).map(fx));
    c.emit("s.is_zero", "-", &a, call(|| s.is_zero()).map(fb));
    c.emit("s.is_one", "-", &a, call(|| s.is_one()).map(fb));
    c.emit("s.to_lut", "-", &a, call(|| Lut::from(s)).map(|l| fl(&l)));
    c.emit("s.not.ref", "-", &a, call(|| !s).map(|r| fsop(&r)));
    c.emit("s.display", "-", &a, call(|| s.to_string()).map(|x| fbytes(x.as_bytes())));
}

fn sop_binary(c: &mut Ctx, s: &Sop, t: &Sop, forms: bool) -> Vec<Sop> {
    let a = [fsop(s), fsop(t)];
    let mut out = Vec::new();
    let r = call(|| s & t);
    c.emit("s.and.ref_ref", "-", &a, r.as_ref().map(fsop));
    out.extend(r);
    let r = call(|| s | t);
    c.emit("s.or.ref_ref", "-", &a, r.as_ref().map(fsop));
    out.extend(r);
    if forms {
        c.emit("s.and.val_val", "-", &a, call(|| s.clone() & t.clone()).map(|r| fsop(&r)));
        c.emit("s.and.ref_val", "-", &a, call(|| s & t.clone()).map(|r| fsop(&r)));
        c.emit("s.and.val_ref", "-", &a, call(|| s.clone() & t).map(|r| fsop(&r)));
        c.emit("s.or.val_val", "-", &a, call(|| s.clone() | t.clone()).map(|r| fsop(&r)));
        c.emit("s.or.ref_val", "-", &a, call(|| s | t.clone()).map(|r| fsop(&r)));
        c.emit("s.or.val_ref", "-", &a, call(|| s.clone() | t).map(|r| fsop(&r)));
        c.emit("s.not.val", "-", &[fsop(s)], call(|| !(s.clone())).map(|r| fsop(&r)));
    }
    out
}

pub fn c14(c: &mut Ctx) {
    for n in 0..=6usize {
        c.emit("s.zero", "-", &[n.to_string()], Some(fsop(&Sop::zero(n))));
        c.emit("s.one", "-", &[n.to_string()], Some(fsop(&Sop::one(n))));
        for v in 0..n {
            c.emit("s.nth_var", "-", &[n.to_string(), fx(v)], call(|| Sop::nth_var(n, v)).map(|s| fsop(&s)));
            c.emit("s.nth_var_inv", "-", &[n.to_string(), fx(v)], call(|| Sop::nth_var_inv(n, v)).map(|s| fsop(&s)));
        }
    }
    // small n: cube lists drawn from all cubes, including redundant ones
    for n in 0..=3usize {
        let cubes: Vec<Cube> = Cube::all(n).collect();
        let rounds = if c.thorough { 400 } else { 80 };
        // all single-cube and two-cube sops for n <= 2
        if n <= 2 {
            for x in cubes.iter() {
                let s = Sop::from_cubes(n, vec![*x]);
                sop_ops(c, &s);
                for y in cubes.iter() {
                    let t = Sop::from_cubes(n, vec![*y, *x]);
                    sop_ops(c, &t);
                    sop_binary(c, &s, &t, false);
                }
            }
        }
        for _ in 0..rounds {
            let k1 = c.rng.below(5);
            let k2 = c.rng.below(5);
            let l1: Vec<Cube> = (0..k1).map(|_| cubes[c.rng.below(cubes.len())]).collect();
            let l2: Vec<Cube> = (0..k2).map(|_| cubes[c.rng.below(cubes.len())]).collect();
            c.emit("s.from_cubes", "-", &[n.to_string(), fcubes(&l1)], call(|| Sop::from_cubes(n, l1.clone())).map(|s| fsop(&s)));
            let s = Sop::from_cubes(n, l1);
            let t = Sop::from_cubes(n, l2);
            sop_ops(c, &s);
            let rs = sop_binary(c, &s, &t, true);
            for m in 0..(1usize << n) {
                c.emit("s.value", "-", &[fsop(&s), fx(m)], call(|| s.value(m)).map(fb));
            }
            // nest: operate on results
            for r in rs.iter() {
                sop_ops(c, r);
                let rr = sop_binary(c, r, &s, false);
                for r2 in rr.iter() {
                    if let Some(r3) = call(|| !r2) {
                        sop_ops(c, &r3);
                        sop_binary(c, &r3, &t, false);
                    }
                }
            }
        }
    }
    // random lists up to n = 10 with up to 12 cubes
    let k = if c.thorough { 400 } else { 60 };
    for _ in 0..k {
        let n = 1 + c.rng.below(10);
        let l1 = random_cube_list(c, n, if n <= 6 { 12 } else { 6 });
        let l2 = random_cube_list(c, n, if n <= 6 { 12 } else { 6 });
        let s = Sop::from_cubes(n, l1);
        let t = Sop::from_cubes(n, l2);
        sop_ops(c, &s);
        let rs = sop_binary(c, &s, &t, false);
        for r in rs.iter() {
            c.emit("s.to_lut", "-", &[fsop(r)], call(|| Lut::from(r)).map(|l| fl(&l)));
            c.emit("s.is_zero", "-", &[fsop(r)], call(|| r.is_zero()).map(fb));
            c.emit("s.is_one", "-", &[fsop(r)], call(|| r.is_one()).map(fb));
        }
        for _ in 0..4 {
            let m = c.rng.below(1 << n);
            c.emit("s.value", "-", &[fsop(&s), fx(m)], call(|| s.value(m)).map(fb));
        }
    }
    // Lut <-> Sop
    for n in 0..=(if c.thorough { 4 } else { 3 }) {
        for (i, t) in all_tables(n).iter().enumerate() {
            if n == 4 && i % 16 != 5 {
                continue;
            }
            let l = Lut::from_blocks(n, t);
            let r = call(|| Sop::from(&l));
            c.emit("s.from_lut", "-", &[fl(&l)], r.as_ref().map(fsop));
            if let Some(s) = r {
                c.emit("s.to_lut", "-", &[fsop(&s)], call(|| Lut::from(&s)).map(|l| fl(&l)));
                if n <= 3 {
                    c.emit("s.not.ref", "-", &[fsop(&s)], call(|| !&s).map(|r| fsop(&r)));
                }
            }
        }
    }
    for n in 4..=8usize {
        for k in 0..3 {
            let l = Lut::from_blocks(n, &gen_table(&mut c.rng, n, [Kind::Sparse, Kind::Uniform, Kind::Dense][k]));
            let r = call(|| Sop::from(&l));
            c.emit("s.from_lut", "-", &[fl(&l)], r.as_ref().map(fsop));
            c.emit("s.from_lut.val", "-", &[fl(&l)], call(|| Sop::from(l.clone())).map(|s| fsop(&s)));
            if let Some(s) = r {
                c.emit("s.to_lut", "-", &[fsop(&s)], call(|| Lut::from(&s)).map(|l| fl(&l)));
                c.emit("s.to_lut.val", "-", &[fsop(&s)], call(|| Lut::from(s.clone())).map(|l| fl(&l)));
            }
        }
    }
    // mismatched sizes and out-of-range variables
    let s = Sop::one(2);
    let t = Sop::one(3);
    c.emit("s.and.ref_ref", "-", &[fsop(&s), fsop(&t)], call(|| &s & &t).map(|r| fsop(&r)));
    c.emit("s.or.ref_ref", "-", &[fsop(&s), fsop(&t)], call(|| &s | &t).map(|r| fsop(&r)));
    let bad = vec![Cube::nth_var(3)];
    c.emit("s.from_cubes", "-", &["3".into(), fcubes(&bad)], call(|| Sop::from_cubes(3, bad.clone())).map(|r| fsop(&r)));
    let bad = vec![Cube::nth_var_inv(5)];
    c.emit("s.from_cubes", "-", &["3".into(), fcubes(&bad)], call(|| Sop::from_cubes(3, bad.clone())).map(|r| fsop(&r)));
}

fn esop_ops(c: &mut Ctx, s: &Esop) {
    let a = [fesop(s)];
    c.emit("x.num_cubes", "-", &a, call(|| s.num_cubes()).map(|v| v.to_string()));
    c.emit("x.num_lits", "-", &a, call(|| s.num_lits()).map(fx));
    c.emit("x.is_zero", "-", &a, call(|| s.is_zero()).map(fb));
    c.emit("x.is_one", "-", &a, call(|| s.is_one()).map(fb));
    c.emit("x.to_lut", "-", &a, call(|| Lut::from(s)).map(|l| fl(&l)));
    c.emit("x.not.ref", "-", &a, call(|| !s).map(|r| fesop(&r)));
    c.emit("x.not.val", "-", &a, call(|| !(s.clone())).map(|r| fesop(&r)));
    c.emit("x.display", "-", &a, call(|| s.to_string()).map(|x| fbytes(x.as_bytes())));
}

pub fn c15(c: &mut Ctx) {
    for n in 0..=6usize {
        c.emit("x.zero", "-", &[n.to_string()], Some(fesop(&Esop::zero(n))));
        c.emit("x.one", "-", &[n.to_string()], Some(fesop(&Esop::one(n))));
        for v in 0..n {
            c.emit("x.nth_var", "-", &[n.to_string(), fx(v)], call(|| Esop::nth_var(n, v)).map(|s| fesop(&s)));
            c.emit("x.nth_var_inv", "-", &[n.to_string(), fx(v)], call(|| Esop::nth_var_inv(n, v)).map(|s| fesop(&s)));
        }
    }
    for n in 0..=(if c.thorough { 4 } else { 3 }) {
        for t in all_tables(n).iter() {
            let l = Lut::from_blocks(n, t);
            let r = call(|| Esop::from(&l));
            c.emit("x.from_lut", "-", &[fl(&l)], r.as_ref().map(fesop));
            if let Some(s) = r {
                c.emit("x.to_lut", "-", &[fesop(&s)], call(|| Lut::from(&s)).map(|l| fl(&l)));
                if n <= 3 {
                    c.emit("x.is_zero", "-", &[fesop(&s)], call(|| s.is_zero()).map(fb));
                    c.emit("x.is_one", "-", &[fesop(&s)], call(|| s.is_one()).map(fb));
                }
            }
        }
    }
    for n in 4..=10usize {
        let reps = match (n, c.thorough) {
            (4..=6, false) => 12,
            (4..=6, true) => 60,
            (7..=8, false) => 4,
            (7..=8, true) => 12,
            (_, false) => 1,
            (_, true) => 3,
        };
        for k in 0..reps {
            let l = Lut::from_blocks(n, &gen_table(&mut c.rng, n, crate::KINDS[k % crate::KINDS.len()]));
            let r = call(|| Esop::from(&l));
            c.emit("x.from_lut", "-", &[fl(&l)], r.as_ref().map(fesop));
            if k == 0 {
                c.emit("x.from_lut.val", "-", &[fl(&l)], call(|| Esop::from(l.clone())).map(|s| fesop(&s)));
            }
            if let Some(s) = r {
                if n <= 8 {
                    c.emit("x.to_lut", "-", &[fesop(&s)], call(|| Lut::from(&s)).map(|l| fl(&l)));
                    c.emit("x.to_lut.val", "-", &[fesop(&s)], call(|| Lut::from(s.clone())).map(|l| fl(&l)));
                }
            }
        }
    }
    // operators on random cube lists
    let k = if c.thorough { 1500 } else { 300 };
    for _ in 0..k {
        let n = c.rng.below(9);
        let l1 = random_cube_list(c, n, 6);
        let l2 = random_cube_list(c, n, 6);
        c.emit("x.from_cubes", "-", &[n.to_string(), fcubes(&l1)], call(|| Esop::from_cubes(n, l1.clone())).map(|s| fesop(&s)));
        let s = Esop::from_cubes(n, l1);
        let t = Esop::from_cubes(n, l2);
        esop_ops(c, &s);
        let a = [fesop(&s), fesop(&t)];
        c.emit("x.xor.val_val", "-", &a, call(|| s.clone() ^ t.clone()).map(|r| fesop(&r)));
        c.emit("x.xor.ref_val", "-", &a, call(|| &s ^ t.clone()).map(|r| fesop(&r)));
        c.emit("x.xor.ref_ref", "-", &a, call(|| &s ^ &t).map(|r| fesop(&r)));
        c.emit("x.xor.val_ref", "-", &a, call(|| s.clone() ^ &t).map(|r| fesop(&r)));
        if let Some(r) = call(|| &s ^ &t) {
            esop_ops(c, &r);
        }
        for _ in 0..3 {
            let m = c.rng.below(1 << n);
            c.emit("x.value", "-", &[fesop(&s), fx(m)], call(|| s.value(m)).map(fb));
        }
    }
    let s = Esop::one(2);
    let t = Esop::one(3);
    c.emit("x.xor.ref_ref", "-", &[fesop(&s), fesop(&t)], call(|| &s ^ &t).map(|r| fesop(&r)));
    let bad = vec![Cube::nth_var(4)];
    c.emit("x.from_cubes", "-", &["3".into(), fcubes(&bad)], call(|| Esop::from_cubes(3, bad.clone())).map(|r| fesop(&r)));
}

/// C02: the conversions from the two-level forms are part of the public API that produces truth tables
pub fn to_lut_conversions(c: &mut Ctx) {
    let k = if c.thorough { 12 } else { 4 };
    for n in 0..=8usize {
        for _ in 0..k {
            let l = random_cube_list(c, n, 4);
            let s = Sop::from_cubes(n, l.clone());
            c.emit("s.to_lut", "-", &[fsop(&s)], call(|| Lut::from(&s)).map(|l| fl(&l)));
            c.emit("s.to_lut.val", "-", &[fsop(&s)], call(|| Lut::from(s.clone())).map(|l| fl(&l)));
            let e = Esop::from_cubes(n, l);
            c.emit("x.to_lut", "-", &[fesop(&e)], call(|| Lut::from(&e)).map(|l| fl(&l)));
            c.emit("x.to_lut.val", "-", &[fesop(&e)], call(|| Lut::from(e.clone())).map(|l| fl(&l)));
            let o = random_soes(c, n, 4);
            c.emit("o.to_lut", "-", &[fsoes(&o)], call(|| Lut::from(&o)).map(|l| fl(&l)));
            c.emit("o.to_lut.val", "-", &[fsoes(&o)], call(|| Lut::from(o.clone())).map(|l| fl(&l)));
        }
    }
}

pub fn c16(c: &mut Ctx) {
    // cubes and ecubes over n <= 4 (5 in thorough), all
    for n in 0..=(if c.thorough { 5 } else { 4 }) {
        for x in all_cubes(n).iter() {
            c.emit("c.display", "-", &[fcube(x)], call(|| x.to_string()).map(|s| fbytes(s.as_bytes())));
        }
        for x in all_ecubes(n).iter() {
            c.emit("e.display", "-", &[fecube(x)], call(|| x.to_string()).map(|s| fbytes(s.as_bytes())));
        }
    }
    // distinct cubes print distinct text: conjunctions in each of the four operator forms (clashing operands included)
    // against the canonical zero cube and against the by-value form
    for n in 0..=3usize {
        let cubes = all_cubes(n);
        for x in cubes.iter() {
            for y in cubes.iter() {
                let rs = [call(|| *x & *y), call(|| x & *y), call(|| x & y), call(|| *x & y)];
                for r in rs.iter().flatten() {
                    for z in [Cube::zero(), *x & *y] {
                        let rec = call(|| format!("{}|{}", fb(*r == z), fb(r.to_string() == z.to_string())));
                        c.emit("c.display_distinct", "-", &[fcube(r), fcube(&z)], rec);
                    }
                }
            }
        }
    }
    // fresh threads, high variables first: what is printed must not depend on what the thread printed before
    for round in 0..(if c.thorough { 8 } else { 3 }) {
        let n = 12usize;
        let mut cubes: Vec<Cube> = Vec::new();
        let hi = 8 + c.rng.below(4);
        cubes.push(if round % 2 == 0 { Cube::nth_var(hi) } else { Cube::nth_var_inv(hi) });
        for _ in 0..4 {
            cubes.push(random_cube(c, n));
        }
        cubes.push(Cube::nth_var(c.rng.below(8)));
        // (the zero cube cannot go through from_cubes)
        let third = if cubes[1].is_zero() { Cube::nth_var_inv(10) } else { cubes[1] };
        let sop = Sop::from_cubes(n, vec![cubes[0], Cube::nth_var(c.rng.below(8)), third]);
        let esop = Esop::from_cubes(n, vec![cubes[0], Cube::nth_var_inv(c.rng.below(8))]);
        let order_sop_first = round == 1;
        let (cs, sp, ep) = (cubes.clone(), sop.clone(), esop.clone());
        let h = std::thread::spawn(move || {
            let mut out: Vec<Option<String>> = Vec::new();
            if order_sop_first {
                out.push(call(|| sp.to_string()));
                out.push(call(|| ep.to_string()));
            }
            for x in cs.iter() {
                out.push(call(|| x.to_string()));
            }
            if !order_sop_first {
                out.push(call(|| sp.to_string()));
                out.push(call(|| ep.to_string()));
            }
            out
        });
        let mut out = h.join().unwrap().into_iter();
        if order_sop_first {
            c.emit("s.display", "-", &[fsop(&sop)], out.next().unwrap().map(|t| fbytes(t.as_bytes())));
            c.emit("x.display", "-", &[fesop(&esop)], out.next().unwrap().map(|t| fbytes(t.as_bytes())));
        }
        for x in cubes.iter() {
            c.emit("c.display", "-", &[fcube(x)], out.next().unwrap().map(|t| fbytes(t.as_bytes())));
        }
        if !order_sop_first {
            c.emit("s.display", "-", &[fsop(&sop)], out.next().unwrap().map(|t| fbytes(t.as_bytes())));
            c.emit("x.display", "-", &[fesop(&esop)], out.next().unwrap().map(|t| fbytes(t.as_bytes())));
        }
    }
    // all forms with <= 3 terms over n <= 3 (sampled for 3 terms unless thorough)
    for n in 0..=3usize {
        let cubes: Vec<Cube> = Cube::all(n).collect();
        let ecs = all_ecubes(n);
        c.emit("s.display", "-", &[fsop(&Sop::zero(n))], Some(fbytes(Sop::zero(n).to_string().as_bytes())));
        c.emit("x.display", "-", &[fesop(&Esop::zero(n))], Some(fbytes(Esop::zero(n).to_string().as_bytes())));
        c.emit("o.display", "-", &[fsoes(&Soes::zero(n))], Some(fbytes(Soes::zero(n).to_string().as_bytes())));
        for x in cubes.iter() {
            for y in cubes.iter() {
                let s = Sop::from_cubes(n, vec![*x, *y]);
                c.emit("s.display", "-", &[fsop(&s)], call(|| s.to_string()).map(|t| fbytes(t.as_bytes())));
                let s = Esop::from_cubes(n, vec![*x, *y]);
                c.emit("x.display", "-", &[fesop(&s)], call(|| s.to_string()).map(|t| fbytes(t.as_bytes())));
            }
            let s = Sop::from_cubes(n, vec![*x]);
            c.emit("s.display", "-", &[fsop(&s)], call(|| s.to_string()).map(|t| fbytes(t.as_bytes())));
            let s = Esop::from_cubes(n, vec![*x]);
            c.emit("x.display", "-", &[fesop(&s)], call(|| s.to_string()).map(|t| fbytes(t.as_bytes())));
        }
        for x in ecs.iter() {
            let s = Soes::from_cubes(n, vec![*x]);
            c.emit("o.display", "-", &[fsoes(&s)], call(|| s.to_string()).map(|t| fbytes(t.as_bytes())));
            for y in ecs.iter() {
                let s = Soes::from_cubes(n, vec![*x, *y]);
                c.emit("o.display", "-", &[fsoes(&s)], call(|| s.to_string()).map(|t| fbytes(t.as_bytes())));
            }
        }
        let k = if c.thorough { 3000 } else { 400 };
        for _ in 0..k {
            let l: Vec<Cube> = (0..3).map(|_| cubes[c.rng.below(cubes.len())]).collect();
            let s = Sop::from_cubes(n, l.clone());
            c.emit("s.display", "-", &[fsop(&s)], call(|| s.to_string()).map(|t| fbytes(t.as_bytes())));
            let s = Esop::from_cubes(n, l);
            c.emit("x.display", "-", &[fesop(&s)], call(|| s.to_string()).map(|t| fbytes(t.as_bytes())));
            let l: Vec<Ecube> = (0..3).map(|_| ecs[c.rng.below(ecs.len())]).collect();
            let s = Soes::from_cubes(n, l);
            c.emit("o.display", "-", &[fsoes(&s)], call(|| s.to_string()).map(|t| fbytes(t.as_bytes())));
        }
    }
    // random, up to 32 variables (two-digit indices)
    let k = if c.thorough { 3000 } else { 500 };
    for _ in 0..k {
        let n = [12usize, 16, 24, 31, 32][c.rng.below(5)];
        let x = random_cube(c, n);
        c.emit("c.display", "-", &[fcube(&x)], call(|| x.to_string()).map(|s| fbytes(s.as_bytes())));
        let e = random_ecube(c, n);
        c.emit("e.display", "-", &[fecube(&e)], call(|| e.to_string()).map(|s| fbytes(s.as_bytes())));
        let n = 12;
        let l = random_cube_list(c, n, 5);
        let s = Sop::from_cubes(n, l.clone());
        c.emit("s.display", "-", &[fsop(&s)], call(|| s.to_string()).map(|t| fbytes(t.as_bytes())));
        let s = Esop::from_cubes(n, l);
        c.emit("x.display", "-", &[fesop(&s)], call(|| s.to_string()).map(|t| fbytes(t.as_bytes())));
        let s = random_soes(c, n, 5);
        c.emit("o.display", "-", &[fsoes(&s)], call(|| s.to_string()).map(|t| fbytes(t.as_bytes())));
    }
}
