//! Transcript generator: runs the real crate (built from /repo's working tree) on structured, random and
//! malformed inputs and prints one line per call:  id  op  type  args...  =>  result
//! The OCaml driver replays every line on the model extracted from Coq.
mod lutlike;
mod twolevel;
#[cfg(feature = "mip")]
mod mip;

use lutlike::L;
use std::collections::hash_map::DefaultHasher;
use std::hash::{Hash, Hasher};
use std::io::Write;
use std::panic::{catch_unwind, AssertUnwindSafe};
use volute::Lut;

// ---------------------------------------------------------------------------------------------- rng
pub struct Rng(pub u64);
impl Rng {
    pub fn next(&mut self) -> u64 {
        self.0 = self.0.wrapping_add(0x9E3779B97F4A7C15);
        let mut z = self.0;
        z = (z ^ (z >> 30)).wrapping_mul(0xBF58476D1CE4E5B9);
        z = (z ^ (z >> 27)).wrapping_mul(0x94D049BB133111EB);
        z ^ (z >> 31)
    }
    pub fn below(&mut self, n: usize) -> usize {
        if n == 0 {
            0
        } else {
            (self.next() % (n as u64)) as usize
        }
    }
    pub fn coin(&mut self) -> bool {
        self.next() & 1 == 1
    }
}

// ---------------------------------------------------------------------------------------------- ctx
pub struct Ctx {
    pub out: std::io::BufWriter<std::io::Stdout>,
    pub id: u64,
    pub rng: Rng,
    pub thorough: bool,
}

pub fn call<R>(f: impl FnOnce() -> R) -> Option<R> {
    catch_unwind(AssertUnwindSafe(f)).ok()
}

impl Ctx {
    pub fn emit(&mut self, op: &str, ty: &str, args: &[String], res: Option<String>) {
        self.id += 1;
        let r = res.unwrap_or_else(|| "panic".to_string());
        let mut line = format!("{}\t{}\t{}", self.id, op, ty);
        for a in args {
            line.push('\t');
            line.push_str(a);
        }
        line.push_str("\t=>\t");
        line.push_str(&r);
        line.push('\n');
        self.out.write_all(line.as_bytes()).unwrap();
    }
}

// ---------------------------------------------------------------------------------------------- formats
pub fn fx(v: usize) -> String {
    format!("{:x}", v)
}
pub fn fx64(v: u64) -> String {
    format!("{:x}", v)
}
pub fn fb(b: bool) -> String {
    if b { "1" } else { "0" }.to_string()
}
pub fn fwords(w: &[u64]) -> String {
    if w.is_empty() {
        "-".to_string()
    } else {
        w.iter().map(|x| format!("{:x}", x)).collect::<Vec<_>>().join(".")
    }
}
pub fn ftab(n: usize, w: &[u64]) -> String {
    format!("{}:{}", n, fwords(w))
}
pub fn fl<X: L>(x: &X) -> String {
    ftab(x.nvars(), &x.blocks_())
}
pub fn flist(v: &[u64]) -> String {
    if v.is_empty() {
        "-".to_string()
    } else {
        v.iter().map(|x| format!("{:x}", x)).collect::<Vec<_>>().join(",")
    }
}
pub fn fu8s(v: &[u8]) -> String {
    flist(&v.iter().map(|x| *x as u64).collect::<Vec<_>>())
}
pub fn fbytes(s: &[u8]) -> String {
    if s.is_empty() {
        "-".to_string()
    } else {
        s.iter().map(|b| format!("{:02x}", b)).collect::<Vec<_>>().join("")
    }
}
pub fn fcmp(o: std::cmp::Ordering) -> String {
    match o {
        std::cmp::Ordering::Less => "lt",
        std::cmp::Ordering::Equal => "eq",
        std::cmp::Ordering::Greater => "gt",
    }
    .to_string()
}
pub fn hash_of<T: Hash>(t: &T) -> u64 {
    let mut h = DefaultHasher::new();
    t.hash(&mut h);
    h.finish()
}

// ---------------------------------------------------------------------------------------------- tables
pub fn tsize(n: usize) -> usize {
    if n <= 6 {
        1
    } else {
        1 << (n - 6)
    }
}
pub fn nvmask(n: usize) -> u64 {
    if n >= 6 {
        !0u64
    } else {
        (1u64 << (1 << n)) - 1
    }
}

#[derive(Clone, Copy, Debug)]
pub enum Kind {
    Uniform,
    Sparse,
    Dense,
    OnesWords,
    Replicated,
    Symmetricish,
    /// a function of a few of the variables only (the lowest ones half of the time: then every 64-bit word, or every
    /// 2^k-bit window, of the table is the same)
    Periodic,
}
pub const KINDS: [Kind; 7] = [Kind::Uniform, Kind::Sparse, Kind::Dense, Kind::OnesWords, Kind::Replicated, Kind::Symmetricish, Kind::Periodic];

pub fn gen_table(rng: &mut Rng, n: usize, kind: Kind) -> Vec<u64> {
    let len = tsize(n);
    let mask = nvmask(n);
    let bits = 1usize << n;
    let mut t = vec![0u64; len];
    match kind {
        Kind::Uniform => {
            for w in t.iter_mut() {
                *w = rng.next() & mask;
            }
        }
        Kind::Sparse => {
            for _ in 0..(1 + rng.below(3)) {
                let m = rng.below(bits);
                t[m >> 6] |= 1 << (m & 63);
            }
        }
        Kind::Dense => {
            for w in t.iter_mut() {
                *w = mask;
            }
            for _ in 0..(1 + rng.below(3)) {
                let m = rng.below(bits);
                t[m >> 6] &= !(1 << (m & 63));
            }
        }
        Kind::OnesWords => {
            // words that are all ones, all zeros, or random: exercises carries and the word-level regimes
            for w in t.iter_mut() {
                *w = match rng.below(3) {
                    0 => mask,
                    1 => 0,
                    _ => rng.next() & mask,
                };
            }
        }
        Kind::Replicated => {
            // a few random sub-tables of 2^k bits replicated: shared sub-functions
            let k = if n == 0 { 0 } else { rng.below(n) };
            let sub_bits = 1usize << k;
            let nsubs = 1 + rng.below(3);
            let subs: Vec<Vec<bool>> = (0..nsubs).map(|_| (0..sub_bits).map(|_| rng.coin()).collect()).collect();
            let mut pos = 0;
            while pos < bits {
                let s = &subs[rng.below(nsubs)];
                let inv = rng.below(4) == 0;
                for (q, b) in s.iter().enumerate() {
                    if *b != inv {
                        let m = pos + q;
                        t[m >> 6] |= 1 << (m & 63);
                    }
                }
                pos += sub_bits;
            }
        }
        Kind::Periodic => {
            // the support: the k lowest variables, or a random subset
            let support: usize = if n == 0 {
                0
            } else if rng.coin() {
                (1usize << rng.below(n.min(6) + 1)) - 1
            } else {
                (rng.next() as usize) & ((1usize << n) - 1)
            };
            let g: Vec<bool> = (0..bits).map(|_| rng.coin()).collect();
            for m in 0..bits {
                if g[m & support] {
                    t[m >> 6] |= 1 << (m & 63);
                }
            }
        }
        Kind::Symmetricish => {
            // function of the popcount with one random bit flipped
            let cv = rng.next();
            for m in 0..bits {
                if (cv >> (m.count_ones() as u64)) & 1 == 1 {
                    t[m >> 6] |= 1 << (m & 63);
                }
            }
            let m = rng.below(bits);
            t[m >> 6] ^= 1 << (m & 63);
        }
    }
    t
}

pub fn all_tables(n: usize) -> Vec<Vec<u64>> {
    assert!(n <= 4);
    (0..(1u64 << (1 << n))).map(|v| vec![v]).collect()
}

/// a well-spread sample of tables for size n
pub fn sample_tables(rng: &mut Rng, n: usize, per_kind: usize) -> Vec<Vec<u64>> {
    let mut v = Vec::new();
    for k in KINDS {
        for _ in 0..per_kind {
            v.push(gen_table(rng, n, k));
        }
    }
    v
}

// ---------------------------------------------------------------------------------------------- construction routes
// The properties quantify over functions, however they were built. `mkr` returns the function denoted by the well-formed
// table `t`, built through one of several routes of the public API (constructor, complement of the complement in every
// syntactic form, text round trip, Shannon recomposition, involutive transforms, neutral operands, the other type and
// back, assignment by assignment). On a tree where C02 holds all the routes return the very same value, so the
// transcripts do not depend on the route; on a tree where one route leaves a stale representation, every generator
// that uses `mkr` exercises its own operations on it. The route choice has its own generator state, so that the
// generators' random draws (and the pairing of the two types in C10) do not depend on it.
thread_local! {
    static ROUTE_RNG: std::cell::RefCell<Rng> = std::cell::RefCell::new(Rng(0x5EED_0F_2007E5));
    static ROUTE_COUNT: std::cell::RefCell<[u64; 16]> = std::cell::RefCell::new([0; 16]);
}
pub fn route_seed(seed: u64) {
    ROUTE_RNG.with(|r| *r.borrow_mut() = Rng(seed.wrapping_mul(0x9E3779B97F4A7C15) ^ 0x2007E5));
}
pub fn route_counts() -> [u64; 16] {
    ROUTE_COUNT.with(|r| *r.borrow())
}
pub fn mkr<X: L>(n: usize, t: &[u64]) -> X {
    mkr_d::<X>(n, t, 0)
}
/// `t` with variable `i` fixed to `b` (an n-variable function that does not depend on variable i), bit by bit
fn cof_table(n: usize, t: &[u64], i: usize, b: bool) -> Vec<u64> {
    let mut g = vec![0u64; tsize(n)];
    for y in 0..(1usize << n) {
        let x = if b { y | (1 << i) } else { y & !(1 << i) };
        if (t[x >> 6] >> (x & 63)) & 1 == 1 {
            g[y >> 6] |= 1 << (y & 63);
        }
    }
    g
}
/// routes compose: the operands of a route are themselves built through routes (two levels below the top), so that a
/// stale representation left by one operation meets the operations that move bits around (a chain of up to three
/// calls, e.g. complement - recomposition - recomposition)
fn mkr_d<X: L>(n: usize, t: &[u64], depth: usize) -> X {
    let (r, k1, k2, k3) = ROUTE_RNG.with(|g| {
        let mut g = g.borrow_mut();
        (g.below(16), g.next() as usize, g.next() as usize, g.next())
    });
    let plain = || X::mk(n, t);
    // an operand: through a route again while the chain is short
    let sub = |tt: &[u64]| -> X { if depth < 2 { mkr_d::<X>(n, tt, depth + 1) } else { X::mk(n, tt) } };
    let id: Vec<usize> = (0..n).collect();
    let built: Option<X> = match r {
        6 | 7 if depth > 0 => call(|| {
            // inside a chain the plain constructor is less likely than at the top: a second recomposition instead
            if n == 0 {
                return plain();
            }
            let i = k1 % n;
            let c0 = sub(&cof_table(n, t, i, false));
            let c1 = sub(&cof_table(n, t, i, true));
            X::from_cofactors_(&c0, &c1, i)
        }),
        8 | 9 => call(|| {
            let nt: Vec<u64> = t.iter().map(|w| !w & nvmask(n)).collect();
            let y = sub(&nt);
            let forms = X::not_forms(&y);
            let f = &forms[k1 % forms.len()].1;
            f(&y)
        }),
        10 => call(|| {
            let y = plain();
            X::from_hex_(n, &y.to_hex_()).unwrap()
        }),
        11 if n > 0 => call(|| {
            let i = k1 % n;
            if k2 & 1 == 0 {
                let y = plain();
                let (c0, c1) = y.cofactors_(i);
                X::from_cofactors_(&c0, &c1, i)
            } else {
                let c0 = sub(&cof_table(n, t, i, false));
                let c1 = sub(&cof_table(n, t, i, true));
                X::from_cofactors_(&c0, &c1, i)
            }
        }),
        12 if n > 0 => call(|| {
            let i = k1 % n;
            let j = k2 % n;
            if k1 & 0x100 == 0 {
                sub(&transform_table(n, t, &id, 1 << i, false)).flip_(i)
            } else {
                let mut p = id.clone();
                p.swap(i, j);
                sub(&transform_table(n, t, &p, 0, false)).swap_(i, j)
            }
        }),
        13 => call(|| {
            // t = a op b with a, b built through routes: a ^ (t ^ a), (t | r) & (t | !r), (t & r) | (t & !r)
            let forms = X::bin_forms();
            let k = k1 % forms.len();
            let (op, _, f) = &forms[k];
            let mut g = Rng(k3);
            let rnd: Vec<u64> = (0..tsize(n)).map(|_| g.next() & nvmask(n)).collect();
            let (ta, tb): (Vec<u64>, Vec<u64>) = match *op {
                "xor" => (rnd.clone(), t.iter().zip(rnd.iter()).map(|(x, r)| x ^ r).collect()),
                "and" => (t.iter().zip(rnd.iter()).map(|(x, r)| x | r).collect(),
                          t.iter().zip(rnd.iter()).map(|(x, r)| (x | !r) & nvmask(n)).collect()),
                _ => (t.iter().zip(rnd.iter()).map(|(x, r)| x & r).collect(),
                      t.iter().zip(rnd.iter()).map(|(x, r)| x & !r).collect()),
            };
            let a = sub(&ta);
            let b = sub(&tb);
            f(&a, &b)
        }),
        14 => call(|| plain().via_other_()),
        15 if n <= 7 => call(|| {
            let mut y = if k1 & 1 == 0 { X::zero_(n) } else { X::one_(n) };
            for m in 0..(1usize << n) {
                let v = (t[m >> 6] >> (m & 63)) & 1 == 1;
                if k1 & 2 == 0 {
                    y.set_value_(m, v);
                } else if v {
                    y.set_bit_(m);
                } else {
                    y.unset_bit_(m);
                }
            }
            y
        }),
        15 if n > 1 => call(|| {
            let i = k1 % (n - 1);
            let mut p = id.clone();
            p.swap(i, i + 1);
            let mut y = sub(&transform_table(n, t, &p, 0, false));
            y.swap_adjacent_(i)
        }),
        _ => None,
    };
    ROUTE_COUNT.with(|c| c.borrow_mut()[if built.is_some() { r } else { 0 }] += 1);
    built.unwrap_or_else(plain)
}
/// the function that `x` denotes, as observed through `value()` on every assignment, printed as its well-formed table:
/// the form in which arguments are recorded (results are recorded with `fl`, the raw blocks)
pub fn fa<X: L>(x: &X) -> String {
    let n = x.nvars();
    let mut t = vec![0u64; tsize(n)];
    for m in 0..(1usize << n) {
        if x.value_(m) {
            t[m >> 6] |= 1 << (m & 63);
        }
    }
    ftab(n, &t)
}

// ---------------------------------------------------------------------------------------------- C01
fn c01<X: L>(c: &mut Ctx, n: usize) {
    let ty = X::TY;
    let mut pairs: Vec<(Vec<u64>, Vec<u64>)> = Vec::new();
    if n <= 1 || (n == 2 && c.thorough) {
        for a in all_tables(n) {
            for b in all_tables(n) {
                pairs.push((a.clone(), b.clone()));
            }
        }
    } else if n <= 3 || (n == 4 && c.thorough) {
        let partner = gen_table(&mut c.rng, n, Kind::Uniform);
        let partner2 = gen_table(&mut c.rng, n, Kind::Uniform);
        for (i, a) in all_tables(n).into_iter().enumerate() {
            if n == 4 && i % 16 != (c.rng.0 as usize) % 16 {
                continue;
            }
            pairs.push((a.clone(), partner.clone()));
            pairs.push((partner2.clone(), a));
        }
    } else {
        let k = if c.thorough { 4 } else { 1 };
        let ts = sample_tables(&mut c.rng, n, k);
        let us = sample_tables(&mut c.rng, n, k);
        for (i, a) in ts.iter().enumerate() {
            pairs.push((a.clone(), us[(i * 5 + 1) % us.len()].clone()));
        }
    }
    let nforms = X::not_forms(&X::zero_(n));
    let bforms = X::bin_forms();
    for (a, b) in pairs.iter() {
        let xa = mkr::<X>(n, a);
        let xb = mkr::<X>(n, b);
        // borrowed operands must come back unchanged: their printed form before and after every call is compared
        // (an `operand_changed` line has no counterpart in the model and is reported as such)
        let before = (fa(&xa), fa(&xb));
        let raw = (fl(&xa), fl(&xb));
        for (form, f) in nforms.iter() {
            let r = call(|| f(&xa));
            c.emit(&format!("not.{}", form), ty, &[before.0.clone()], r.map(|r| fl(&r)));
            if (fl(&xa), fl(&xb)) != raw {
                c.emit(&format!("operand_changed.not.{}", form), ty, &[before.0.clone(), fl(&xa)], Some("changed".into()));
            }
        }
        for (op, form, f) in bforms.iter() {
            let r = call(|| f(&xa, &xb));
            c.emit(&format!("{}.{}", op, form), ty, &[before.0.clone(), before.1.clone()], r.map(|r| fl(&r)));
            if (fl(&xa), fl(&xb)) != raw {
                c.emit(&format!("operand_changed.{}.{}", op, form), ty, &[before.0.clone(), before.1.clone(), fl(&xa), fl(&xb)], Some("changed".into()));
            }
            // the same object on both sides (the by-reference forms then receive one address twice)
            let r = call(|| f(&xa, &xa));
            c.emit(&format!("{}.{}", op, form), ty, &[before.0.clone(), before.0.clone()], r.map(|r| fl(&r)));
        }
    }
}

fn c01_mismatch(c: &mut Ctx) {
    // size mismatch on the dynamic type: every binary form must panic
    for (n1, n2) in [(0usize, 1usize), (2, 3), (5, 6), (6, 7), (7, 8), (3, 9), (7, 6)] {
        let a = Lut::mk(n1, &gen_table(&mut c.rng, n1, Kind::Uniform));
        let b = Lut::mk(n2, &gen_table(&mut c.rng, n2, Kind::Uniform));
        for (op, form, f) in Lut::bin_forms().iter() {
            let r = call(|| f(&a, &b));
            c.emit(&format!("{}.{}", op, form), "D", &[fl(&a), fl(&b)], r.map(|r| fl(&r)));
        }
    }
}

// ---------------------------------------------------------------------------------------------- C03
fn c03<X: L>(c: &mut Ctx, n: usize) {
    let ty = X::TY;
    let tables: Vec<Vec<u64>> = if n <= 2 || (n == 3 && c.thorough) {
        all_tables(n)
    } else {
        let k = if c.thorough { 3 } else { 1 };
        sample_tables(&mut c.rng, n, k)
    };
    for t in tables.iter() {
        let x = mkr::<X>(n, t);
        for i in 0..n {
            let r = call(|| x.flip_(i));
            c.emit("flip", ty, &[fa(&x), fx(i)], r.map(|r| fl(&r)));
            let r = call(|| {
                let mut y = x.clone();
                y.flip_inplace_(i);
                y
            });
            c.emit("flip.inplace", ty, &[fa(&x), fx(i)], r.map(|r| fl(&r)));
            let r = call(|| x.cofactors_(i));
            c.emit("cofactors", ty, &[fa(&x), fx(i)], r.as_ref().map(|(a, b)| format!("{}|{}", fl(a), fl(b))));
            if let Some((c0, c1)) = r {
                let r2 = call(|| X::from_cofactors_(&c0, &c1, i));
                c.emit("from_cofactors", ty, &[fa(&c0), fa(&c1), fx(i)], r2.map(|r| fl(&r)));
            }
            // from_cofactors of two unrelated functions
            let other = mkr::<X>(n, &gen_table(&mut c.rng, n, Kind::Uniform));
            let r2 = call(|| X::from_cofactors_(&x, &other, i));
            c.emit("from_cofactors", ty, &[fa(&x), fa(&other), fx(i)], r2.map(|r| fl(&r)));
            if i + 1 < n {
                let r = call(|| {
                    let mut y = x.clone();
                    let r = y.swap_adjacent_(i);
                    (r, y)
                });
                // the copying form takes `&mut self`: the receiver must come back as it was
                if let Some((_, y)) = r.as_ref() {
                    c.emit("swap_adjacent.receiver", ty, &[fa(&x), fx(i)], Some(fl(y)));
                }
                let r = r.map(|(r, _)| r);
                c.emit("swap_adjacent", ty, &[fa(&x), fx(i)], r.map(|r| fl(&r)));
                let r = call(|| {
                    let mut y = x.clone();
                    y.swap_adjacent_inplace_(i);
                    y
                });
                c.emit("swap_adjacent.inplace", ty, &[fa(&x), fx(i)], r.map(|r| fl(&r)));
            }
            for j in 0..n {
                let r = call(|| x.swap_(i, j));
                c.emit("swap", ty, &[fa(&x), fx(i), fx(j)], r.map(|r| fl(&r)));
                if (i + j) % 3 == 0 {
                    let r = call(|| {
                        let mut y = x.clone();
                        y.swap_inplace_(i, j);
                        y
                    });
                    c.emit("swap.inplace", ty, &[fa(&x), fx(i), fx(j)], r.map(|r| fl(&r)));
                }
            }
        }
    }
}

// ---------------------------------------------------------------------------------------------- C04 / C05
fn canon_all<X: L>(c: &mut Ctx, x: &X, p: bool, nn: bool, npn: bool) {
    let ty = X::TY;
    // "smallest in the library's own ordering": each representative is also compared with the member of its orbit it was
    // computed from, with the `Ord` of the type at hand
    let mut own_order = |c: &mut Ctx, l: &X| {
        let r = call(|| l.cmp(x));
        c.emit("cmp", ty, &[fa(l), fa(x)], r.map(fcmp));
    };
    if p {
        let r = call(|| x.p_canon_());
        c.emit("p_canon", ty, &[fa(x)], r.as_ref().map(|(l, perm)| format!("{}|{}", fl(l), fu8s(perm))));
        if let Some((l, _)) = r.as_ref() {
            own_order(c, l);
        }
    }
    if nn {
        let r = call(|| x.n_canon_());
        c.emit("n_canon", ty, &[fa(x)], r.as_ref().map(|(l, m)| format!("{}|{:x}", fl(l), m)));
        if let Some((l, _)) = r.as_ref() {
            own_order(c, l);
        }
    }
    if npn {
        let r = call(|| x.npn_canon_());
        c.emit("npn_canon", ty, &[fa(x)], r.as_ref().map(|(l, perm, m)| format!("{}|{}|{:x}", fl(l), fu8s(perm), m)));
        if let Some((l, _, _)) = r.as_ref() {
            own_order(c, l);
        }
    }
}

fn c04<X: L>(c: &mut Ctx, n: usize) {
    // volumes are sized by the cost of the walk on the extracted model
    let (count, p, nn, npn): (usize, bool, bool, bool) = match (n, c.thorough) {
        (0..=3, _) => (usize::MAX, true, true, true),
        (4, false) => (300, true, true, true),
        (4, true) => (usize::MAX, true, true, true),
        (5, false) => (24, true, true, true),
        (5, true) => (400, true, true, true),
        (6, false) => (3, true, true, true),
        (6, true) => (30, true, true, true),
        (7, false) => (2, true, true, false),
        (7, true) => (6, true, true, false),
        (8, false) => (1, true, true, false),
        (8, true) => (3, true, true, false),
        _ => (0, false, false, false),
    };
    if count == usize::MAX {
        for t in all_tables(n) {
            let x = mkr::<X>(n, &t);
            canon_all(c, &x, p, nn, npn);
        }
    } else {
        for k in 0..count {
            let kind = KINDS[k % KINDS.len()];
            let t = gen_table(&mut c.rng, n, kind);
            let x = mkr::<X>(n, &t);
            canon_all(c, &x, p, nn, npn);
            // canonizing a representative must return it unchanged: feed representatives back
            if k % 3 == 0 && n <= 6 {
                if let Some((l, _, _)) = call(|| x.npn_canon_()) {
                    canon_all(c, &l, p, nn, npn);
                }
            }
        }
    }
    if n == 7 && c.thorough && X::TY == "D" {
        let t = gen_table(&mut c.rng, n, Kind::Uniform);
        let x = mkr::<X>(n, &t);
        canon_all(c, &x, false, false, true);
    }
    // already-canonical inputs at the sizes that use the run-time generated sequences
    if n >= 7 {
        let t = gen_table(&mut c.rng, n, Kind::Uniform);
        let x = mkr::<X>(n, &t);
        if let Some((l, _)) = call(|| x.p_canon_()) {
            canon_all(c, &l, true, false, false);
        }
        if let Some((l, _)) = call(|| x.n_canon_()) {
            canon_all(c, &l, false, true, false);
        }
    }
    // orbit sweeps: every member of the orbit of one random function goes through the canonization (all members must
    // get the same representative; a group element that the walk fails to visit shows on the member that needs it).
    // The members are built here, bit by bit, not with volute's own flip/swap.
    if n >= 1 {
        let base = gen_table(&mut c.rng, n, Kind::Uniform);
        let id: Vec<usize> = (0..n).collect();
        // N: all 2^(n+1) complementations
        for mask in 0..(1usize << n) {
            for out in [false, true] {
                let x = mkr::<X>(n, &transform_table(n, &base, &id, mask, out));
                canon_all(c, &x, false, true, false);
            }
        }
        // P: all permutations up to n = 5 (6 for the dynamic type), a sample above
        let perms: Vec<Vec<usize>> = if n <= 5 || (n == 6 && X::TY == "D") {
            all_perms(n)
        } else {
            (0..(if c.thorough { 200 } else if n == 7 { 24 } else { 10 })).map(|_| random_perm(&mut c.rng, n)).collect()
        };
        for perm in perms.iter() {
            let x = mkr::<X>(n, &transform_table(n, &base, perm, 0, false));
            canon_all(c, &x, true, false, false);
        }
        // NPN: the whole orbit at n = 4, a sample at n = 5, 6
        if n == 4 || ((n == 5 || n == 6) && X::TY == "D") {
            let all = all_perms(n);
            let members: Vec<(Vec<usize>, usize, bool)> = if n == 4 {
                let mut v = Vec::new();
                for perm in all.iter() {
                    for mask in 0..(1usize << n) {
                        for out in [false, true] {
                            v.push((perm.clone(), mask, out));
                        }
                    }
                }
                v
            } else {
                (0..(if c.thorough { 120 } else { if n == 5 { 30 } else { 4 } }))
                    .map(|_| (random_perm(&mut c.rng, n), c.rng.below(1 << n), c.rng.coin()))
                    .collect()
            };
            for (perm, mask, out) in members {
                let x = mkr::<X>(n, &transform_table(n, &base, &perm, mask, out));
                canon_all(c, &x, false, false, true);
            }
        }
    }
}

/// g(y) = f(x) xor out, where x[perm[i]] = y[i] xor mask[i]  (the group action of the property text, computed bit by bit)
fn transform_table(n: usize, f: &[u64], perm: &[usize], mask: usize, out: bool) -> Vec<u64> {
    let mut g = vec![0u64; tsize(n)];
    for y in 0..(1usize << n) {
        let mut x = 0usize;
        for i in 0..n {
            if ((y >> i) & 1) ^ ((mask >> i) & 1) == 1 {
                x |= 1 << perm[i];
            }
        }
        let v = ((f[x >> 6] >> (x & 63)) & 1 == 1) != out;
        if v {
            g[y >> 6] |= 1 << (y & 63);
        }
    }
    g
}

fn all_perms(n: usize) -> Vec<Vec<usize>> {
    fn rec(cur: &mut Vec<usize>, used: &mut Vec<bool>, n: usize, out: &mut Vec<Vec<usize>>) {
        if cur.len() == n {
            out.push(cur.clone());
            return;
        }
        for v in 0..n {
            if !used[v] {
                used[v] = true;
                cur.push(v);
                rec(cur, used, n, out);
                cur.pop();
                used[v] = false;
            }
        }
    }
    let mut out = Vec::new();
    rec(&mut Vec::new(), &mut vec![false; n], n, &mut out);
    out
}

fn random_perm(rng: &mut Rng, n: usize) -> Vec<usize> {
    let mut p: Vec<usize> = (0..n).collect();
    for i in (1..n).rev() {
        let j = rng.below(i + 1);
        p.swap(i, j);
    }
    p
}

#[cfg(volute_verif)]
fn canon_sequences(c: &mut Ctx) {
    let top = if c.thorough { 9 } else { 8 };
    for n in 0..=top {
        let r = call(|| volute::verif::canon_sequences(n));
        c.emit("canon_sequences", "D", &[n.to_string()], r.map(|(s, f)| format!("{}|{}", fu8s(&s), fu8s(&f))));
    }
}
#[cfg(not(volute_verif))]
fn canon_sequences(_c: &mut Ctx) {}

// ---------------------------------------------------------------------------------------------- hidden state across calls
/// The same words at neighbouring arities, back to back, on the dynamic type (whose values of up to six variables all
/// have one word): a result must depend on the arguments only, whatever was computed just before on this thread.
/// `group`: 4 = canonization, 6 = decomposition, 7 = bdd, 9 = text, 1 = operators and transforms.
fn cross_arity(c: &mut Ctx, group: usize) {
    let reps = if c.thorough { 6 } else { 2 };
    for n in 0..=6usize {
        for n2 in [n + 1, n + 2] {
            if n2 > 7 {
                continue;
            }
            for rep in 0..reps {
                let w = gen_table(&mut c.rng, n, if rep % 2 == 0 { Kind::Uniform } else { Kind::Symmetricish });
                let mut w2 = vec![0u64; tsize(n2)];
                w2[0] = w[0];
                let a = Lut::mk(n, &w);
                let b = Lut::mk(n2, &w2);
                // a representative first (what a caller checking idempotence leaves behind), then the wider value
                let seq: Vec<Lut> = match call(|| a.npn_canonization().0) {
                    Some(ca) if group == 4 => {
                        let mut wc = vec![0u64; tsize(n2)];
                        wc[0] = ca.blocks()[0];
                        vec![a.clone(), ca.clone(), ca.clone(), Lut::mk(n2, &wc), b.clone(), a.clone()]
                    }
                    _ => vec![a.clone(), b.clone(), a.clone(), b.clone()],
                };
                for x in seq.iter() {
                    let k = x.num_vars();
                    match group {
                        4 => canon_all(c, x, true, true, k <= 6),
                        6 => {
                            for v in 0..k.min(2) {
                                let r = call(|| x.top_decomposition(v));
                                c.emit("top_decomposition", "D", &[fa(x), fx(v)], r.map(|d| format!("{:?}", d)));
                                let r = call(|| x.is_pos_unate(v));
                                c.emit("is_pos_unate", "D", &[fa(x), fx(v)], r.map(fb));
                                let r = call(|| x.is_neg_unate(v));
                                c.emit("is_neg_unate", "D", &[fa(x), fx(v)], r.map(fb));
                            }
                        }
                        7 => {
                            let r = call(|| Lut::bdd_complexity(&[x.clone()]));
                            c.emit("bdd_complexity", "D", &[k.to_string(), fa(x)], r.map(|v| v.to_string()));
                        }
                        9 => {
                            let r = call(|| x.to_hex_string());
                            c.emit("to_hex", "D", &[fa(x)], r.map(|s| fbytes(s.as_bytes())));
                            let r = call(|| x.to_bin_string());
                            c.emit("to_bin", "D", &[fa(x)], r.map(|s| fbytes(s.as_bytes())));
                        }
                        _ => {
                            let r = call(|| !x);
                            c.emit("not.trait_ref", "D", &[fa(x)], r.map(|r| fl(&r)));
                            if k > 0 {
                                let r = call(|| x.flip(0));
                                c.emit("flip", "D", &[fa(x), fx(0)], r.map(|r| fl(&r)));
                                let r = call(|| x.cofactors(k - 1));
                                c.emit("cofactors", "D", &[fa(x), fx(k - 1)], r.as_ref().map(|(p, q)| format!("{}|{}", fl(p), fl(q))));
                            }
                        }
                    }
                }
            }
        }
    }
}

// ---------------------------------------------------------------------------------------------- C06
fn almost_p_tables(rng: &mut Rng, n: usize, v: usize) -> Vec<Vec<u64>> {
    // functions with a decomposition property on variable v, exact and with one bit flipped
    let mut out = Vec::new();
    if n == 0 {
        return out;
    }
    let bits = 1usize << n;
    let g: Vec<bool> = (0..bits).map(|_| rng.coin()).collect(); // a function not depending on v is g(m with bit v cleared)
    let gv = |m: usize| g[m & !(1 << v)];
    let builders: Vec<Box<dyn Fn(usize) -> bool>> = vec![
        Box::new(|m| gv(m)),                              // independent
        Box::new(|m| m >> v & 1 == 1),                    // identity
        Box::new(|m| m >> v & 1 == 0),                    // negation
        Box::new(|m| (m >> v & 1 == 1) && gv(m)),         // and
        Box::new(|m| (m >> v & 1 == 1) || gv(m)),         // or
        Box::new(|m| (m >> v & 1 == 0) || gv(m)),         // le
        Box::new(|m| (m >> v & 1 == 0) && gv(m)),         // lt
        Box::new(|m| (m >> v & 1 == 1) ^ gv(m)),          // xor
        Box::new(|m| if m >> v & 1 == 1 { gv(m) || g[m] } else { gv(m) && g[m] }), // pos unate-ish
    ];
    for b in builders.iter() {
        let mut t = vec![0u64; tsize(n)];
        for m in 0..bits {
            if b(m) {
                t[m >> 6] |= 1 << (m & 63);
            }
        }
        out.push(t.clone());
        let m = rng.below(bits);
        t[m >> 6] ^= 1 << (m & 63);
        out.push(t);
    }
    out
}

fn c06<X: L>(c: &mut Ctx, n: usize) {
    let ty = X::TY;
    let mut emit_all = |c: &mut Ctx, x: &X, v: usize| {
        let r = call(|| x.top_decomposition_(v));
        c.emit("top_decomposition", ty, &[fa(x), fx(v)], r.map(|d| format!("{:?}", d)));
        let r = call(|| x.is_pos_unate_(v));
        c.emit("is_pos_unate", ty, &[fa(x), fx(v)], r.map(fb));
        let r = call(|| x.is_neg_unate_(v));
        c.emit("is_neg_unate", ty, &[fa(x), fx(v)], r.map(fb));
    };
    if n <= 2 || (n == 3 && c.thorough) {
        for t in all_tables(n) {
            let x = mkr::<X>(n, &t);
            for v in 0..n {
                emit_all(c, &x, v);
            }
        }
    }
    for v in 0..n {
        for t in almost_p_tables(&mut c.rng, n, v) {
            let x = mkr::<X>(n, &t);
            emit_all(c, &x, v);
        }
        let k = if c.thorough { 2 } else { 1 };
        for _ in 0..k {
            let x = mkr::<X>(n, &gen_table(&mut c.rng, n, Kind::Uniform));
            emit_all(c, &x, v);
        }
    }
    if n == 1 && ty == "D" {
        for d in ["None", "Independent", "Identity", "Negation", "And", "Or", "Le", "Lt", "Xor"] {
            let dt = match d {
                "None" => volute::DecompositionType::None,
                "Independent" => volute::DecompositionType::Independent,
                "Identity" => volute::DecompositionType::Identity,
                "Negation" => volute::DecompositionType::Negation,
                "And" => volute::DecompositionType::And,
                "Or" => volute::DecompositionType::Or,
                "Le" => volute::DecompositionType::Le,
                "Lt" => volute::DecompositionType::Lt,
                _ => volute::DecompositionType::Xor,
            };
            let s = format!("{}{}{}{}", fb(dt.is_trivial()), fb(dt.is_and_type()), fb(dt.is_xor_type()), fb(dt.is_simple_gate()));
            c.emit("decomp_class", "D", &[d.to_string()], Some(s));
        }
    }
}

// ---------------------------------------------------------------------------------------------- C07
fn c07<X: L>(c: &mut Ctx, n: usize) {
    let ty = X::TY;
    let emit = |c: &mut Ctx, ls: &Vec<X>| {
        let r = call(|| X::bdd_(ls.as_slice()));
        let a = if ls.is_empty() { "-".to_string() } else { ls.iter().map(|l| fa(l)).collect::<Vec<_>>().join(";") };
        c.emit("bdd_complexity", ty, &[n.to_string(), a], r.map(|v| v.to_string()));
    };
    emit(c, &Vec::new());
    if n <= 3 || (n == 4 && c.thorough) {
        for (i, t) in all_tables(n).into_iter().enumerate() {
            if n == 4 && i % 8 != 3 {
                continue;
            }
            emit(c, &vec![mkr::<X>(n, &t)]);
        }
    }
    if n <= 2 {
        for a in all_tables(n) {
            for b in all_tables(n) {
                emit(c, &vec![mkr::<X>(n, &a), mkr::<X>(n, &b)]);
            }
        }
    }
    // (the small sizes are cheap on the model: more lists there, so that the construction routes get their chance)
    let rounds = if c.thorough { 24 } else if n <= 5 { 32 } else { 8 };
    for r in 0..rounds {
        let len = 1 + c.rng.below(4);
        let mut ls: Vec<X> = Vec::new();
        for _ in 0..len {
            let kind = match r % 4 {
                0 => Kind::Uniform,
                1 => Kind::Replicated,
                2 => Kind::Symmetricish,
                _ => KINDS[c.rng.below(KINDS.len())],
            };
            ls.push(mkr::<X>(n, &gen_table(&mut c.rng, n, kind)));
        }
        emit(c, &ls);
        // permuted, duplicated, complemented variants of the same list
        let mut p = ls.clone();
        p.reverse();
        emit(c, &p);
        let mut d = ls.clone();
        d.push(ls[0].clone());
        emit(c, &d);
        let mut m = ls.clone();
        let k = c.rng.below(m.len());
        let neg = X::not_forms(&m[k])[0].1(&m[k]);
        m[k] = neg;
        emit(c, &m);
    }
}

// ---------------------------------------------------------------------------------------------- C08
fn c08<X: L>(c: &mut Ctx, n: usize) {
    let ty = X::TY;
    let mut pairs: Vec<(Vec<u64>, Vec<u64>)> = Vec::new();
    if n <= 2 {
        for a in all_tables(n) {
            for b in all_tables(n) {
                pairs.push((a.clone(), b.clone()));
            }
        }
    } else {
        let ts = sample_tables(&mut c.rng, n, if c.thorough { 3 } else { 1 });
        for (i, a) in ts.iter().enumerate() {
            pairs.push((a.clone(), ts[(i + 1) % ts.len()].clone()));
            pairs.push((a.clone(), a.clone()));
            // equal high words / different low words and the reverse
            let mut b = a.clone();
            let w = c.rng.below(b.len());
            b[w] ^= 1 << c.rng.below(1 << n.min(6));
            pairs.push((a.clone(), b.clone()));
            if b.len() > 1 {
                let mut d = a.clone();
                let lo = 0;
                let hi = d.len() - 1;
                d[lo] = d[lo].wrapping_add(1) & nvmask(n);
                d[hi] = d[hi].wrapping_sub(1) & nvmask(n);
                pairs.push((a.clone(), d));
                // two word positions perturbed in opposite directions, every other word (in particular the top one,
                // when q < hi) equal: the higher of the two positions decides
                let mut pos: Vec<usize> = vec![0, 1.min(hi), hi, hi.saturating_sub(1)];
                for _ in 0..4 {
                    pos.push(c.rng.below(b.len()));
                }
                pos.sort();
                pos.dedup();
                for (ip, &p) in pos.iter().enumerate() {
                    for &q in pos.iter().skip(ip + 1) {
                        let mut e = a.clone();
                        let up = c.rng.coin();
                        let m = nvmask(n);
                        let bump = |w: u64, inc: bool| -> u64 {
                            if inc { if w == m { w - 1 } else { w + 1 } } else if w == 0 { 1 } else { w - 1 }
                        };
                        e[p] = bump(e[p], up);
                        e[q] = bump(e[q], !up);
                        pairs.push((a.clone(), e.clone()));
                        // and a third position in between / below, so that three words differ
                        if p > 0 {
                            e[p - 1] = bump(e[p - 1], !up);
                            pairs.push((e, a.clone()));
                        }
                    }
                }
            }
        }
    }
    for (a, b) in pairs.iter() {
        let xa = mkr::<X>(n, a);
        let xb = mkr::<X>(n, b);
        let r = call(|| xa.cmp(&xb));
        c.emit("cmp", ty, &[fa(&xa), fa(&xb)], r.map(fcmp));
        let r = call(|| xa == xb);
        c.emit("eq", ty, &[fa(&xa), fa(&xb)], r.map(fb));
        let r = call(|| hash_of(&xa) == hash_of(&xb));
        c.emit("hash_eq", ty, &[fa(&xa), fa(&xb)], r.map(fb));
        // partial_cmp / lt must agree with cmp
        let r = call(|| xa.partial_cmp(&xb).unwrap());
        c.emit("cmp.partial", ty, &[fa(&xa), fa(&xb)], r.map(fcmp));
    }
    // iterator
    let k: usize = match (n, c.thorough) {
        (0..=3, _) => 300,
        (4, true) => 70000,
        (4, false) => 1500,
        _ => 40,
    };
    let r = call(|| {
        let mut it = X::all_functions_(n);
        let mut items = Vec::new();
        let mut exhausted = false;
        while items.len() < k {
            match it.next() {
                Some(l) => items.push(fwords(&l.blocks_())),
                None => {
                    exhausted = true;
                    break;
                }
            }
        }
        if !exhausted && items.len() == k {
            // not asked further
        }
        let ex = if exhausted { true } else { false };
        (items, ex)
    });
    c.emit(
        "all_functions",
        ty,
        &[n.to_string(), k.to_string()],
        r.map(|(items, ex)| format!("{}|{}|{}", items.len(), fb(ex), if items.is_empty() { "".to_string() } else { items.join(";") })),
    );
    // what is left of a run, through the consumers built on `fold` (count, fold, last, for_each, max), after k calls of
    // `next` - on the concrete iterator type, whose own overrides of these methods are then the ones that run
    if n <= 3 {
        let total = 1usize << (1 << n);
        let mut ks = vec![0usize, 1, total - 1, total, total];
        ks.push(c.rng.below(total + 1));
        for (i, k) in ks.into_iter().enumerate() {
            for variant in 0..5usize {
                let extra = i == 4;
                let r = call(|| X::iter_rest_(n, k, extra, variant));
                c.emit("all_functions_rest", ty, &[n.to_string(), fx(k), [0usize, 1, 2, 0, 2][variant].to_string()], r);
            }
        }
    }
    // the iterator through `nth` (what `skip` and `step_by` call): jumps from a position that is not the start, some of
    // them across the end of the run
    if n <= 4 {
        let total = 1usize << (1 << n);
        for rep in 0..(if c.thorough { 12 } else { 4 }) {
            let jumps: Vec<usize> = (0..(2 + c.rng.below(3))).map(|_| c.rng.below(total * 3 / 4 + 2)).collect();
            let r = call(|| {
                let mut it = X::all_functions_(n);
                jumps.iter().map(|j| match it.nth(*j) { Some(l) => fl(&l), None => "none".to_string() }).collect::<Vec<_>>().join(";")
            });
            c.emit("all_functions_jumps", ty, &[n.to_string(), flist(&jumps.iter().map(|j| *j as u64).collect::<Vec<_>>())], r);
            let a = c.rng.below(total + 1);
            let st = 1 + c.rng.below(if rep % 2 == 0 { 3 } else { total / 2 + 1 });
            let kk = 6usize;
            let r = call(|| {
                let items: Vec<String> = X::all_functions_(n).skip(a).step_by(st).take(kk).map(|l| fl(&l)).collect();
                if items.is_empty() { "none".to_string() } else { items.join(";") }
            });
            c.emit("all_functions_strided", ty, &[n.to_string(), fx(a), fx(st), fx(kk)], r);
        }
    }
}

#[cfg(volute_verif)]
fn c08_next_step(c: &mut Ctx, n: usize) {
    let mut tables: Vec<Vec<u64>> = Vec::new();
    let len = tsize(n);
    let mask = nvmask(n);
    tables.push(vec![0; len]);
    tables.push(vec![mask; len]);
    for k in 0..len {
        // low k words all ones
        let mut t = vec![0u64; len];
        for w in t.iter_mut().take(k) {
            *w = mask;
        }
        tables.push(t.clone());
        if k < len {
            t[k] = c.rng.next() & mask;
            tables.push(t.clone());
            t[k] = mask - 1;
            tables.push(t);
        }
    }
    for _ in 0..(if c.thorough { 20 } else { 5 }) {
        tables.push(gen_table(&mut c.rng, n, Kind::OnesWords));
        tables.push(gen_table(&mut c.rng, n, Kind::Uniform));
    }
    for t in tables {
        let l = Lut::from_blocks(n, &t);
        let r = call(|| volute::verif::next_step(&l));
        c.emit("next_step", "D", &[fl(&l)], r.map(|(l2, ok)| format!("{}|{}", fl(&l2), fb(ok))));
    }
}
#[cfg(not(volute_verif))]
fn c08_next_step(_c: &mut Ctx, _n: usize) {}

// ---------------------------------------------------------------------------------------------- C09
fn c09_print<X: L>(c: &mut Ctx, n: usize) {
    let ty = X::TY;
    let tables: Vec<Vec<u64>> = if n <= 3 { all_tables(n) } else { sample_tables(&mut c.rng, n, if c.thorough { 4 } else { 1 }) };
    for (i, t) in tables.iter().enumerate() {
        let x = mkr::<X>(n, t);
        let r = call(|| x.to_hex_());
        let hex = r.clone();
        c.emit("to_hex", ty, &[fa(&x)], r.map(|s| fbytes(s.as_bytes())));
        if n <= 8 || i % 3 == 0 {
            let r = call(|| x.to_bin_());
            c.emit("to_bin", ty, &[fa(&x)], r.map(|s| fbytes(s.as_bytes())));
        }
        let r = call(|| format!("{}", x));
        c.emit("display", ty, &[fa(&x)], r.map(|s| fbytes(s.as_bytes())));
        let r = call(|| format!("{:x}", x));
        c.emit("lowerhex", ty, &[fa(&x)], r.map(|s| fbytes(s.as_bytes())));
        if n <= 8 || i % 3 == 0 {
            let r = call(|| format!("{:b}", x));
            c.emit("binary", ty, &[fa(&x)], r.map(|s| fbytes(s.as_bytes())));
        }
        // round trip and upper case
        if let Some(h) = hex {
            parse_one::<X>(c, n, h.as_bytes());
            parse_one::<X>(c, n, h.to_uppercase().as_bytes());
        }
    }
}

fn parse_one<X: L>(c: &mut Ctx, n: usize, s: &[u8]) {
    // only valid UTF-8 can be passed as &str
    if let Ok(st) = std::str::from_utf8(s) {
        let r = call(|| X::from_hex_(n, st));
        c.emit(
            "from_hex",
            X::TY,
            &[n.to_string(), fbytes(s)],
            r.map(|r| match r {
                Ok(l) => format!("ok:{}", fl(&l)),
                Err(()) => "err".to_string(),
            }),
        );
    }
}

fn hex_width(n: usize) -> usize {
    if n <= 2 {
        1
    } else {
        1 << (n - 2)
    }
}

fn c09_parse<X: L>(c: &mut Ctx, n: usize) {
    let width = hex_width(n);
    let alphabet: Vec<&str> = vec![
        "0", "1", "2", "3", "4", "7", "8", "9", "a", "c", "f", "A", "F", "+", "-", " ", "g", "x", "G", "é", "€", "\u{0}", "/", ":", "@", "`",
    ];
    // every string of length 0..=2 over the alphabet for tiny widths
    if width == 1 {
        parse_one::<X>(c, n, b"");
        for a in alphabet.iter() {
            parse_one::<X>(c, n, a.as_bytes());
            for b in alphabet.iter() {
                let s = format!("{}{}", a, b);
                parse_one::<X>(c, n, s.as_bytes());
            }
        }
        for d in "0123456789abcdefABCDEF".chars() {
            parse_one::<X>(c, n, d.to_string().as_bytes());
        }
    }
    // every single-character corruption of well-formed strings, at every position of the first/last chunk and
    // a few random positions
    let rounds = if c.thorough { 6 } else { 2 };
    for _ in 0..rounds {
        let t = gen_table(&mut c.rng, n, Kind::Uniform);
        let x = X::mk(n, &t);
        let good = x.to_hex_();
        let gb = good.as_bytes().to_vec();
        let mut positions: Vec<usize> = Vec::new();
        for p in 0..gb.len().min(17) {
            positions.push(p);
        }
        for p in gb.len().saturating_sub(17)..gb.len() {
            positions.push(p);
        }
        for _ in 0..4 {
            positions.push(c.rng.below(gb.len()));
        }
        positions.sort();
        positions.dedup();
        for p in positions {
            for a in ["+", "-", " ", "g", "x", "é", "F", "0"] {
                if n > 8 && c.rng.below(4) != 0 {
                    continue;
                }
                let mut s = gb[..p].to_vec();
                s.extend_from_slice(a.as_bytes());
                s.extend_from_slice(&gb[p + 1..]);
                parse_one::<X>(c, n, &s);
            }
        }
        // wrong lengths
        for d in [1usize, 2] {
            if gb.len() >= d {
                parse_one::<X>(c, n, &gb[d..]);
                parse_one::<X>(c, n, &gb[..gb.len() - d]);
            }
            let mut s = gb.clone();
            for _ in 0..d {
                s.push(b'0');
            }
            parse_one::<X>(c, n, &s);
            let mut s = vec![b'0'; d];
            s.extend_from_slice(&gb);
            parse_one::<X>(c, n, &s);
        }
        // sign replacing a leading zero of a chunk, multi-byte char keeping the byte length
        if gb.len() >= 2 {
            let mut s = gb.clone();
            s[0] = b'+';
            parse_one::<X>(c, n, &s);
            let mut s = gb.clone();
            let e = "é".as_bytes();
            s[0] = e[0];
            s[1] = e[1];
            parse_one::<X>(c, n, &s);
            if gb.len() > 16 {
                let mut s = gb.clone();
                s[16] = b'+';
                parse_one::<X>(c, n, &s);
                let mut s = gb.clone();
                s[15] = e[0];
                s[16] = e[1];
                parse_one::<X>(c, n, &s);
            }
        }
    }
    // random strings over the alphabet of length 0..=width+2 (short widths only: long ones are rejected by length)
    let k = if c.thorough { 200 } else { 40 };
    for _ in 0..k {
        let len = if width <= 8 { c.rng.below(width + 3) } else { width - 1 + c.rng.below(3) };
        let mut s = String::new();
        while s.len() < len {
            // mostly digits
            if c.rng.below(4) != 0 {
                s.push_str(alphabet[c.rng.below(13)]);
            } else {
                s.push_str(alphabet[c.rng.below(alphabet.len())]);
            }
        }
        parse_one::<X>(c, n, s.as_bytes());
    }
}

// ---------------------------------------------------------------------------------------------- C10
fn c10_static<X: L>(c: &mut Ctx, n: usize) {
    // conversions
    let ts = sample_tables(&mut c.rng, n, if c.thorough { 3 } else { 1 });
    for t in ts.iter() {
        let x = X::mk(n, t);
        c.emit("blocks", "S", &[fl(&x)], Some(flist(&x.blocks_())));
        c.emit("num_vars", "S", &[fl(&x)], Some(x.num_vars_().to_string()));
        c.emit("num_bits", "S", &[fl(&x)], Some(fx(x.num_bits_())));
        c.emit("num_blocks", "S", &[fl(&x)], Some(x.num_blocks_().to_string()));
    }
}

fn c10_conv<const N: usize, const T: usize>(c: &mut Ctx)
where
    volute::StaticLut<N, T>: L,
{
    let n = N;
    let ts = sample_tables(&mut c.rng, n, if c.thorough { 3 } else { 1 });
    for t in ts.iter() {
        let s = volute::StaticLut::<N, T>::from_blocks(t);
        let r = call(|| Lut::from(s));
        let d = r.clone();
        c.emit("to_dyn", "S", &[fl(&s)], r.map(|l| fl(&l)));
        if let Some(d) = d {
            let r = call(|| volute::StaticLut::<N, T>::try_from(d.clone()));
            c.emit(
                "try_from_dyn",
                "S",
                &[n.to_string(), fl(&d)],
                r.map(|r| match r {
                    Ok(l) => format!("ok:{}", fl(&l)),
                    Err(()) => "err".to_string(),
                }),
            );
        }
    }
    // conversion from Luts of every other size fails
    for m in 0..=13usize {
        let d = Lut::mk(m, &gen_table(&mut c.rng, m, Kind::Uniform));
        let r = call(|| volute::StaticLut::<N, T>::try_from(d.clone()));
        c.emit(
            "try_from_dyn",
            "S",
            &[n.to_string(), fl(&d)],
            r.map(|r| match r {
                Ok(l) => format!("ok:{}", fl(&l)),
                Err(()) => "err".to_string(),
            }),
        );
    }
    // from_blocks with a wrong length
    for len in [0usize, 1, 2, 3, T + 1] {
        if len == T {
            continue;
        }
        let b = vec![0u64; len];
        let r = call(|| volute::StaticLut::<N, T>::from_blocks(&b));
        c.emit("from_blocks", "S", &[n.to_string(), flist(&b)], r.map(|l| fl(&l)));
    }
}

fn c10_all_conv(c: &mut Ctx) {
    c10_conv::<0, 1>(c);
    c10_conv::<1, 1>(c);
    c10_conv::<2, 1>(c);
    c10_conv::<3, 1>(c);
    c10_conv::<4, 1>(c);
    c10_conv::<5, 1>(c);
    c10_conv::<6, 1>(c);
    c10_conv::<7, 2>(c);
    c10_conv::<8, 4>(c);
    c10_conv::<9, 8>(c);
    c10_conv::<10, 16>(c);
    c10_conv::<11, 32>(c);
    c10_conv::<12, 64>(c);
}

fn c10_ints(c: &mut Ctx) {
    let k = if c.thorough { 2000 } else { 300 };
    for v in 0..=255u8 {
        let l = volute::Lut3::from(v);
        c.emit("from_int", "S", &["3".into(), fx64(v as u64)], Some(fl(&l)));
        let back: u8 = l.into();
        c.emit("to_int", "S", &[fl(&l)], Some(fx64(back as u64)));
    }
    for _ in 0..k {
        let v = c.rng.next();
        let l = volute::Lut4::from(v as u16);
        c.emit("from_int", "S", &["4".into(), fx64(v as u16 as u64)], Some(fl(&l)));
        let back: u16 = l.into();
        c.emit("to_int", "S", &[fl(&l)], Some(fx64(back as u64)));
        let l = volute::Lut5::from(v as u32);
        c.emit("from_int", "S", &["5".into(), fx64(v as u32 as u64)], Some(fl(&l)));
        let back: u32 = l.into();
        c.emit("to_int", "S", &[fl(&l)], Some(fx64(back as u64)));
        let l = volute::Lut6::from(v);
        c.emit("from_int", "S", &["6".into(), fx64(v)], Some(fl(&l)));
        let back: u64 = l.into();
        c.emit("to_int", "S", &[fl(&l)], Some(fx64(back)));
    }
}

// ---------------------------------------------------------------------------------------------- C11
fn c11<X: L>(c: &mut Ctx, n: usize) {
    let ty = X::TY;
    let ns = n.to_string();
    let r = call(|| X::zero_(n));
    c.emit("zero", ty, &[ns.clone()], r.map(|l| fl(&l)));
    let r = call(|| X::one_(n));
    c.emit("one", ty, &[ns.clone()], r.map(|l| fl(&l)));
    let r = call(|| X::default_(n));
    c.emit("default", ty, &[ns.clone()], r.map(|l| fl(&l)));
    let r = call(|| X::parity_(n));
    c.emit("parity", ty, &[ns.clone()], r.map(|l| fl(&l)));
    let r = call(|| X::majority_(n));
    c.emit("majority", ty, &[ns.clone()], r.map(|l| fl(&l)));
    for i in 0..n {
        let r = call(|| X::nth_var_(n, i));
        c.emit("nth_var", ty, &[ns.clone(), fx(i)], r.map(|l| fl(&l)));
    }
    let mut ks: Vec<usize> = (0..=n + 2).collect();
    ks.extend_from_slice(&[31, 32, 33, 62, 63, 64, 65, 127, 128, usize::MAX - 1, usize::MAX]);
    for k in ks {
        let r = call(|| X::threshold_(n, k));
        c.emit("threshold", ty, &[ns.clone(), fx(k)], r.map(|l| fl(&l)));
        let r = call(|| X::equals_(n, k));
        c.emit("equals", ty, &[ns.clone(), fx(k)], r.map(|l| fl(&l)));
    }
    let mut cvs: Vec<usize> = Vec::new();
    if n <= 3 {
        for v in 0..(1usize << (n + 1)) {
            cvs.push(v);
        }
    }
    for _ in 0..(if c.thorough { 24 } else { 6 }) {
        cvs.push(c.rng.next() as usize);
    }
    cvs.extend_from_slice(&[0, 1, usize::MAX, 1 << 63, 0xaaaa_aaaa_aaaa_aaaa]);
    for cv in cvs {
        let r = call(|| X::symmetric_(n, cv));
        c.emit("symmetric", ty, &[ns.clone(), fx(cv)], r.map(|l| fl(&l)));
    }
    // bit access
    let x = X::mk(n, &gen_table(&mut c.rng, n, Kind::Uniform));
    let bits = 1usize << n;
    let probes: Vec<usize> = if bits <= 64 { (0..bits).collect() } else { (0..24).map(|_| c.rng.below(bits)).chain([0, 63, 64, bits - 1]).collect() };
    for m in probes {
        let r = call(|| x.value_(m));
        c.emit("value", ty, &[fl(&x), fx(m)], r.map(fb));
        let r = call(|| x.get_bit_(m));
        c.emit("get_bit", ty, &[fl(&x), fx(m)], r.map(fb));
        let r = call(|| {
            let mut y = x.clone();
            y.set_bit_(m);
            y
        });
        c.emit("set_bit", ty, &[fl(&x), fx(m)], r.map(|l| fl(&l)));
        let r = call(|| {
            let mut y = x.clone();
            y.unset_bit_(m);
            y
        });
        c.emit("unset_bit", ty, &[fl(&x), fx(m)], r.map(|l| fl(&l)));
        let v = c.rng.coin();
        let r = call(|| {
            let mut y = x.clone();
            y.set_value_(m, v);
            y
        });
        c.emit("set_value", ty, &[fl(&x), fx(m), fb(v)], r.map(|l| fl(&l)));
    }
}

// ---------------------------------------------------------------------------------------------- C17
fn bad_indices(n: usize) -> Vec<usize> {
    let mut v: Vec<usize> = (n..=n + 70).collect();
    v.extend_from_slice(&[usize::MAX, usize::MAX - 1, 1 << 32, 1 << 63]);
    v
}

fn c17<X: L>(c: &mut Ctx, n: usize) {
    let ty = X::TY;
    let x = X::mk(n, &gen_table(&mut c.rng, n, Kind::Uniform));
    let y = X::mk(n, &gen_table(&mut c.rng, n, Kind::Uniform));
    let ns = n.to_string();
    for i in bad_indices(n) {
        let r = call(|| X::nth_var_(n, i));
        c.emit("nth_var", ty, &[ns.clone(), fx(i)], r.map(|l| fl(&l)));
        let r = call(|| x.flip_(i));
        c.emit("flip", ty, &[fl(&x), fx(i)], r.map(|l| fl(&l)));
        let r = call(|| {
            let mut z = x.clone();
            z.flip_inplace_(i);
            z
        });
        c.emit("flip.inplace", ty, &[fl(&x), fx(i)], r.map(|l| fl(&l)));
        let r = call(|| x.cofactors_(i));
        c.emit("cofactors", ty, &[fl(&x), fx(i)], r.map(|(a, b)| format!("{}|{}", fl(&a), fl(&b))));
        let r = call(|| X::from_cofactors_(&x, &y, i));
        c.emit("from_cofactors", ty, &[fl(&x), fl(&y), fx(i)], r.map(|l| fl(&l)));
        let r = call(|| x.top_decomposition_(i));
        c.emit("top_decomposition", ty, &[fl(&x), fx(i)], r.map(|d| format!("{:?}", d)));
        let r = call(|| x.is_pos_unate_(i));
        c.emit("is_pos_unate", ty, &[fl(&x), fx(i)], r.map(fb));
        let r = call(|| x.is_neg_unate_(i));
        c.emit("is_neg_unate", ty, &[fl(&x), fx(i)], r.map(fb));
        let r = call(|| {
            let mut z = x.clone();
            z.swap_adjacent_(i)
        });
        c.emit("swap_adjacent", ty, &[fl(&x), fx(i)], r.map(|l| fl(&l)));
        let r = call(|| {
            let mut z = x.clone();
            z.swap_adjacent_inplace_(i);
            z
        });
        c.emit("swap_adjacent.inplace", ty, &[fl(&x), fx(i)], r.map(|l| fl(&l)));
        for j in [0usize, n.saturating_sub(1), i] {
            let r = call(|| x.swap_(i, j));
            c.emit("swap", ty, &[fl(&x), fx(i), fx(j)], r.map(|l| fl(&l)));
            let r = call(|| x.swap_(j, i));
            c.emit("swap", ty, &[fl(&x), fx(j), fx(i)], r.map(|l| fl(&l)));
            let r = call(|| {
                let mut z = x.clone();
                z.swap_inplace_(j, i);
                z
            });
            c.emit("swap.inplace", ty, &[fl(&x), fx(j), fx(i)], r.map(|l| fl(&l)));
        }
    }
    // the last valid index for the adjacent swap is n - 2
    if n >= 1 {
        let i = n - 1;
        let r = call(|| {
            let mut z = x.clone();
            z.swap_adjacent_(i)
        });
        c.emit("swap_adjacent", ty, &[fl(&x), fx(i)], r.map(|l| fl(&l)));
    }
    // assignments out of range
    let bits = 1usize << n;
    let mut bad: Vec<usize> = (bits..=bits + 70).collect();
    bad.extend_from_slice(&[usize::MAX, 1 << 32, 1 << 63, bits * 2, bits * 64, bits + 64, bits + 4096]);
    for m in bad {
        let r = call(|| x.value_(m));
        c.emit("value", ty, &[fl(&x), fx(m)], r.map(fb));
        let r = call(|| x.get_bit_(m));
        c.emit("get_bit", ty, &[fl(&x), fx(m)], r.map(fb));
        let r = call(|| {
            let mut z = x.clone();
            z.set_bit_(m);
            z
        });
        c.emit("set_bit", ty, &[fl(&x), fx(m)], r.map(|l| fl(&l)));
        let r = call(|| {
            let mut z = x.clone();
            z.unset_bit_(m);
            z
        });
        c.emit("unset_bit", ty, &[fl(&x), fx(m)], r.map(|l| fl(&l)));
        let r = call(|| {
            let mut z = x.clone();
            z.set_value_(m, true);
            z
        });
        c.emit("set_value", ty, &[fl(&x), fx(m), fb(true)], r.map(|l| fl(&l)));
        let r = call(|| {
            let mut z = x.clone();
            z.set_value_(m, false);
            z
        });
        c.emit("set_value", ty, &[fl(&x), fx(m), fb(false)], r.map(|l| fl(&l)));
    }
    // block slices of the wrong length
    let good = tsize(n);
    for len in [0usize, 1, 2, 3, 4, 5, 8, good + 1, good * 2] {
        if len == good {
            continue;
        }
        let b: Vec<u64> = (0..len).map(|_| c.rng.next() & nvmask(n)).collect();
        let r = call(|| X::from_blocks_(n, &b));
        c.emit("from_blocks", ty, &[ns.clone(), flist(&b)], r.map(|l| fl(&l)));
    }
    // a valid workload: results must be identical in both profiles (compared through the model)
    for i in 0..n {
        let r = call(|| x.flip_(i));
        c.emit("flip", ty, &[fl(&x), fx(i)], r.map(|l| fl(&l)));
        let r = call(|| x.cofactors_(i));
        c.emit("cofactors", ty, &[fl(&x), fx(i)], r.map(|(a, b)| format!("{}|{}", fl(&a), fl(&b))));
        let r = call(|| X::from_cofactors_(&x, &y, i));
        c.emit("from_cofactors", ty, &[fl(&x), fl(&y), fx(i)], r.map(|l| fl(&l)));
    }
}

fn c17_dyn_mismatch(c: &mut Ctx) {
    for (n1, n2) in [(0usize, 1usize), (1, 0), (2, 3), (5, 6), (6, 5), (6, 7), (7, 6), (7, 8), (8, 7), (3, 9)] {
        let a = Lut::mk(n1, &gen_table(&mut c.rng, n1, Kind::Uniform));
        let b = Lut::mk(n2, &gen_table(&mut c.rng, n2, Kind::Uniform));
        for (op, form, f) in Lut::bin_forms().iter() {
            let r = call(|| f(&a, &b));
            c.emit(&format!("{}.{}", op, form), "D", &[fl(&a), fl(&b)], r.map(|r| fl(&r)));
        }
        for i in 0..n1.min(n2) {
            let r = call(|| Lut::from_cofactors(&a, &b, i));
            c.emit("from_cofactors", "D", &[fl(&a), fl(&b), fx(i)], r.map(|l| fl(&l)));
        }
        let r = call(|| Lut::from_cofactors(&a, &b, 0));
        c.emit("from_cofactors", "D", &[fl(&a), fl(&b), fx(0)], r.map(|l| fl(&l)));
        let ls = vec![a.clone(), b.clone()];
        let r = call(|| Lut::bdd_complexity(&ls));
        c.emit("bdd_complexity", "D", &[n1.to_string(), format!("{};{}", fl(&a), fl(&b))], r.map(|v| v.to_string()));
        // comparison across sizes is defined (by num_vars first)
        let r = call(|| a.cmp(&b));
        c.emit("cmp", "D", &[fl(&a), fl(&b)], r.map(fcmp));
        let r = call(|| a == b);
        c.emit("eq", "D", &[fl(&a), fl(&b)], r.map(fb));
    }
    // every pair of different sizes up to 8, with the block contents related in the three possible ways
    // (identical words, larger, smaller): the order must follow num_vars whatever the blocks say
    for n1 in 0..=8usize {
        for n2 in 0..=8usize {
            if n1 == n2 {
                continue;
            }
            let ta = gen_table(&mut c.rng, n1, Kind::Uniform);
            let m = nvmask(n1.min(n2));
            let len2 = tsize(n2);
            let same: Vec<u64> = (0..len2).map(|k| ta.get(k).copied().unwrap_or(0) & m).collect();
            let mut up = same.clone();
            up[len2 - 1] = (up[len2 - 1] | 1) & nvmask(n2);
            let mut down = same.clone();
            down[len2 - 1] &= !1;
            let a0: Vec<u64> = ta.iter().map(|w| w & m).collect();
            for (wa, wb) in [(a0.clone(), same.clone()), (a0.clone(), up), (a0.iter().map(|w| w | 1).collect(), down), (ta.clone(), gen_table(&mut c.rng, n2, Kind::Uniform))] {
                let a = Lut::mk(n1, &wa);
                let b = Lut::mk(n2, &wb);
                let r = call(|| a.cmp(&b));
                c.emit("cmp", "D", &[fl(&a), fl(&b)], r.map(fcmp));
                let r = call(|| a.partial_cmp(&b).unwrap());
                c.emit("cmp.partial", "D", &[fl(&a), fl(&b)], r.map(fcmp));
                let r = call(|| a == b);
                c.emit("eq", "D", &[fl(&a), fl(&b)], r.map(fb));
                let r = call(|| hash_of(&a) == hash_of(&b));
                c.emit("hash_eq", "D", &[fl(&a), fl(&b)], r.map(fb));
            }
        }
    }
}

// ---------------------------------------------------------------------------------------------- C02: histories
fn c02<X: L>(c: &mut Ctx, n: usize) {
    let ty = X::TY;
    let programs = if c.thorough { 40 } else { 10 };
    // the parser as a constructor: every string of the right width over the hex digits for n <= 2 (the widths are 1),
    // random digit strings above - whatever it accepts must be well formed
    {
        let width = if n <= 2 { 1 } else { 1usize << (n - 2) };
        let digits = b"0123456789abcdefABCDEF";
        let mut strings: Vec<Vec<u8>> = Vec::new();
        if n <= 2 {
            for d in digits.iter() {
                strings.push(vec![*d]);
            }
        } else {
            for _ in 0..4 {
                strings.push((0..width).map(|_| digits[c.rng.below(digits.len())]).collect());
            }
        }
        for s in strings {
            let st = String::from_utf8(s.clone()).unwrap();
            let r = call(|| X::from_hex_(n, &st));
            c.emit("from_hex", ty, &[n.to_string(), fbytes(&s)], r.map(|x| match x {
                Ok(l) => format!("ok:{}", fl(&l)),
                Err(_) => "err".to_string(),
            }));
        }
    }
    // the iterator past its end: whatever it still yields is a value obtained through the public API
    if n <= 3 {
        let extra = 5usize;
        let r = call(|| {
            let mut it = X::all_functions_(n);
            let mut cnt = 0usize;
            while it.next().is_some() {
                cnt += 1;
                if cnt > (1usize << (1 << n)) + 2 {
                    break;
                }
            }
            let mut items = vec![cnt.to_string()];
            for _ in 0..extra {
                items.push(match it.next() {
                    Some(l) => fl(&l),
                    None => "none".to_string(),
                });
            }
            items.join(";")
        });
        c.emit("all_functions_after", ty, &[n.to_string(), extra.to_string()], r);
    }
    for _ in 0..programs {
        let mut pool: Vec<X> = Vec::new();
        // start from constructors
        pool.push(X::zero_(n));
        pool.push(X::one_(n));
        pool.push(X::mk(n, &gen_table(&mut c.rng, n, Kind::Uniform)));
        let steps = 1 + c.rng.below(12);
        for _ in 0..steps {
            let a = pool[c.rng.below(pool.len())].clone();
            let b = pool[c.rng.below(pool.len())].clone();
            let choice = c.rng.below(22);
            let mut push = |c: &mut Ctx, pool: &mut Vec<X>, op: &str, args: Vec<String>, r: Option<X>| {
                c.emit(op, ty, &args, r.as_ref().map(|l| fl(l)));
                if let Some(l) = r {
                    pool.push(l);
                }
            };
            match choice {
                0 => {
                    // every syntactic form of NOT (a form that forgets to re-mask would leave a malformed value in the pool)
                    let forms = X::not_forms(&a);
                    let k = c.rng.below(forms.len());
                    let f = &forms[k].1;
                    let r = call(|| f(&a));
                    push(c, &mut pool, &format!("not.{}", forms[k].0), vec![fl(&a)], r);
                }
                1..=3 => {
                    let forms = X::bin_forms();
                    let k = c.rng.below(forms.len());
                    let (op, form, f) = &forms[k];
                    let r = call(|| f(&a, &b));
                    push(c, &mut pool, &format!("{}.{}", op, form), vec![fl(&a), fl(&b)], r);
                }
                4 | 5 if n > 0 => {
                    let i = c.rng.below(n);
                    let r = call(|| a.flip_(i));
                    push(c, &mut pool, "flip", vec![fl(&a), fx(i)], r);
                }
                6 | 7 if n > 0 => {
                    let i = c.rng.below(n);
                    let j = c.rng.below(n);
                    let r = call(|| a.swap_(i, j));
                    push(c, &mut pool, "swap", vec![fl(&a), fx(i), fx(j)], r);
                }
                8 if n > 1 => {
                    let i = c.rng.below(n - 1);
                    let r = call(|| {
                        let mut z = a.clone();
                        z.swap_adjacent_(i)
                    });
                    push(c, &mut pool, "swap_adjacent", vec![fl(&a), fx(i)], r);
                }
                9 | 10 if n > 0 => {
                    let i = c.rng.below(n);
                    let r = call(|| a.cofactors_(i));
                    c.emit("cofactors", ty, &[fl(&a), fx(i)], r.as_ref().map(|(p, q)| format!("{}|{}", fl(p), fl(q))));
                    if let Some((p, q)) = r {
                        pool.push(p);
                        pool.push(q);
                    }
                }
                11 if n > 0 => {
                    let i = c.rng.below(n);
                    let r = call(|| X::from_cofactors_(&a, &b, i));
                    push(c, &mut pool, "from_cofactors", vec![fl(&a), fl(&b), fx(i)], r);
                }
                12 => {
                    let m = c.rng.below(1 << n);
                    let v = c.rng.coin();
                    let r = call(|| {
                        let mut z = a.clone();
                        z.set_value_(m, v);
                        z
                    });
                    push(c, &mut pool, "set_value", vec![fl(&a), fx(m), fb(v)], r);
                }
                13 => {
                    let s = a.to_hex_();
                    let r = call(|| X::from_hex_(n, &s).unwrap());
                    c.emit("from_hex", ty, &[n.to_string(), fbytes(s.as_bytes())], r.as_ref().map(|l| format!("ok:{}", fl(l))));
                    if let Some(l) = r {
                        pool.push(l);
                    }
                }
                14 => {
                    let k = c.rng.below(n + 3);
                    let r = call(|| X::threshold_(n, k));
                    push(c, &mut pool, "threshold", vec![n.to_string(), fx(k)], r);
                }
                15 => {
                    let cv = c.rng.next() as usize;
                    let r = call(|| X::symmetric_(n, cv));
                    push(c, &mut pool, "symmetric", vec![n.to_string(), fx(cv)], r);
                }
                16 if n > 0 => {
                    let i = c.rng.below(n);
                    let r = call(|| X::nth_var_(n, i));
                    push(c, &mut pool, "nth_var", vec![n.to_string(), fx(i)], r);
                }
                17 if n <= 6 => {
                    let r = call(|| a.npn_canon_());
                    c.emit("npn_canon", ty, &[fl(&a)], r.as_ref().map(|(l, perm, m)| format!("{}|{}|{:x}", fl(l), fu8s(perm), m)));
                    if let Some((l, _, _)) = r {
                        pool.push(l);
                    }
                }
                18 if n <= 8 => {
                    let r = call(|| a.n_canon_());
                    c.emit("n_canon", ty, &[fl(&a)], r.as_ref().map(|(l, m)| format!("{}|{:x}", fl(l), m)));
                    if let Some((l, _)) = r {
                        pool.push(l);
                    }
                }
                19 => {
                    let r = call(|| X::parity_(n));
                    push(c, &mut pool, "parity", vec![n.to_string()], r);
                }
                20 => {
                    let r = call(|| X::from_blocks_(n, &a.blocks_()));
                    push(c, &mut pool, "from_blocks", vec![n.to_string(), flist(&a.blocks_())], r);
                }
                _ => {
                    let k = c.rng.below(n + 2);
                    let r = call(|| X::equals_(n, k));
                    push(c, &mut pool, "equals", vec![n.to_string(), fx(k)], r);
                }
            }
        }
        // extensionality probes over the pool: eq / hash / cmp, and on pairs equal by construction
        let a = pool[c.rng.below(pool.len())].clone();
        let nn = {
            // both complementations are transcript lines of their own, so that a malformed intermediate is seen
            let forms = X::not_forms(&a);
            let k = c.rng.below(forms.len());
            let f = &forms[k].1;
            let n1 = f(&a);
            c.emit(&format!("not.{}", forms[k].0), ty, &[fl(&a)], Some(fl(&n1)));
            let n2 = f(&n1);
            c.emit(&format!("not.{}", forms[k].0), ty, &[fl(&n1)], Some(fl(&n2)));
            n2
        };
        let mut probes: Vec<(X, X)> = vec![(a.clone(), nn)];
        if n > 0 {
            let i = c.rng.below(n);
            probes.push((a.clone(), a.flip_(i).flip_(i)));
            let (p, q) = a.cofactors_(i);
            probes.push((a.clone(), X::from_cofactors_(&p, &q, i)));
        }
        if let Ok(l) = X::from_hex_(n, &a.to_hex_()) {
            probes.push((a.clone(), l));
        }
        for _ in 0..3 {
            probes.push((pool[c.rng.below(pool.len())].clone(), pool[c.rng.below(pool.len())].clone()));
        }
        if ty == "D" {
            // values of a different size holding the same words: equal blocks must not mean equal / Ordering::Equal
            let x = pool[c.rng.below(pool.len())].clone();
            for n2 in [n.wrapping_sub(1), n + 1] {
                if n2 > 12 {
                    continue;
                }
                let len2 = tsize(n2);
                let m = nvmask(n.min(n2));
                let xb = x.blocks_();
                let wb: Vec<u64> = (0..len2).map(|k| xb.get(k).copied().unwrap_or(0) & m).collect();
                let a = Lut::mk(n, &xb);
                let b = Lut::mk(n2, &wb);
                let r = call(|| a.cmp(&b));
                c.emit("cmp", "D", &[fl(&a), fl(&b)], r.map(fcmp));
                let r = call(|| a == b);
                c.emit("eq", "D", &[fl(&a), fl(&b)], r.map(fb));
                let r = call(|| hash_of(&a) == hash_of(&b));
                c.emit("hash_eq", "D", &[fl(&a), fl(&b)], r.map(fb));
                // Clone::clone_from into a value of another size, directly and through Vec::clone_from
                let r = call(|| {
                    let mut d = b.clone();
                    d.clone_from(&a);
                    d
                });
                c.emit("clone_from", "D", &[fl(&b), fl(&a)], r.map(|l| fl(&l)));
                let r = call(|| {
                    let mut d = vec![b.clone(), a.clone()];
                    d.clone_from(&vec![a.clone(), b.clone()]);
                    d.swap_remove(0)
                });
                c.emit("clone_from.vec", "D", &[fl(&b), fl(&a)], r.map(|l| fl(&l)));
            }
        }
        {
            // and between values of the same size, on both types
            let a = pool[c.rng.below(pool.len())].clone();
            let b = pool[c.rng.below(pool.len())].clone();
            let r = call(|| {
                let mut d = b.clone();
                d.clone_from(&a);
                d
            });
            c.emit("clone_from", ty, &[fl(&b), fl(&a)], r.map(|l| fl(&l)));
        }
        for (p, q) in probes {
            c.emit("eq", ty, &[fl(&p), fl(&q)], Some(fb(p == q)));
            c.emit("hash_eq", ty, &[fl(&p), fl(&q)], Some(fb(hash_of(&p) == hash_of(&q))));
            c.emit("cmp", ty, &[fl(&p), fl(&q)], Some(fcmp(p.cmp(&q))));
        }
    }
}

// ---------------------------------------------------------------------------------------------- C19
fn c19<X: L + Send>(c: &mut Ctx, n: usize) {
    let draws = 256;
    // one thread
    for _ in 0..draws {
        let r = call(|| X::random_(n));
        c.emit("random.t0", X::TY, &[n.to_string()], r.map(|l| fl(&l)));
    }
    // 16 concurrent threads
    let handles: Vec<std::thread::JoinHandle<Vec<Option<Vec<u64>>>>> = (0..16)
        .map(|_| {
            std::thread::spawn(move || {
                (0..draws).map(|_| call(|| X::random_(n)).map(|l| l.blocks_())).collect()
            })
        })
        .collect();
    for (t, h) in handles.into_iter().enumerate() {
        let v = h.join().unwrap();
        for r in v {
            c.emit(&format!("random.t{}", t + 1), X::TY, &[n.to_string()], r.map(|w| ftab(n, &w)));
        }
    }
}

/// histories on one fresh thread: a few draws of a single-word size (either type), then 256 draws of a multi-word size
/// (either type) - the draws of one size must not depend on what was drawn before on that thread
fn c19_mixed<X: L + Send>(c: &mut Ctx, n: usize) {
    fn small<Y: L>(_c: &mut Ctx, n: usize) {
        let _ = call(|| Y::random_(n));
    }
    for (k, small_static, n_small) in [(1usize, false, 3usize), (1, true, 5), (2, false, 6), (3, true, 0), (5, false, 4)] {
        let h: std::thread::JoinHandle<Vec<Option<Vec<u64>>>> = std::thread::spawn(move || {
            let mut dummy = Ctx { out: std::io::BufWriter::new(std::io::stdout()), id: 0, rng: Rng(0), thorough: false };
            for _ in 0..k {
                if small_static {
                    with_static!(n_small, small(&mut dummy, n_small));
                } else {
                    small::<Lut>(&mut dummy, n_small);
                }
            }
            (0..256).map(|_| call(|| X::random_(n)).map(|l| l.blocks_())).collect()
        });
        let v = h.join().unwrap();
        for r in v {
            c.emit(&format!("random.mix{}{}{}", k, if small_static { "s" } else { "d" }, n_small), X::TY, &[n.to_string()], r.map(|w| ftab(n, &w)));
        }
    }
}

// ---------------------------------------------------------------------------------------------- tables cross-check
#[cfg(volute_verif)]
fn const_tables(c: &mut Ctx) {
    let (vm, nvm, swm, cm) = volute::verif::const_tables();
    c.emit("const.VAR_MASK", "D", &[], Some(flist(&vm)));
    c.emit("const.NUM_VARS_MASK", "D", &[], Some(flist(&nvm)));
    c.emit("const.COUNT_MASKS", "D", &[], Some(flist(&cm)));
    c.emit("const.SWAP_INPUT_MASKS", "D", &[], Some(swm.iter().map(|r| flist(r)).collect::<Vec<_>>().join("|")));
}
#[cfg(not(volute_verif))]
fn const_tables(_c: &mut Ctx) {}

// ---------------------------------------------------------------------------------------------- main
macro_rules! for_static {
    ($c:expr, $f:ident, $range:expr) => {
        for n in $range {
            with_static!(n, $f(&mut *$c, n));
        }
    };
}

fn main() {
    let args: Vec<String> = std::env::args().collect();
    if args.len() < 4 {
        eprintln!("usage: harness <property> <quick|thorough> <seed>");
        std::process::exit(2);
    }
    std::panic::set_hook(Box::new(|_| {}));
    let prop = args[1].as_str();
    let thorough = args[2] == "thorough";
    let seed: u64 = args[3].parse().unwrap_or(1);
    let mut ctx = Ctx { out: std::io::BufWriter::new(std::io::stdout()), id: 0, rng: Rng(seed.wrapping_mul(0x2545F4914F6CDD1D) ^ 0xC0FFEE), thorough };
    route_seed(seed);
    let c = &mut ctx;
    match prop {
        "C01" => {
            for n in 0..=14 {
                c01::<Lut>(c, n);
            }
            for_static!(c, c01, 0..=12usize);
            c01_mismatch(c);
            cross_arity(c, 1);
        }
        "C02" => {
            for n in 0..=9 {
                c02::<Lut>(c, n);
                if n <= 6 {
                    c02::<Lut>(c, n);
                }
            }
            for_static!(c, c02, 0..=9usize);
            c02::<Lut>(c, 12);
            c02::<volute::Lut12>(c, 12);
            cross_arity(c, 1);
            cross_arity(c, 4);
            twolevel::to_lut_conversions(c);
            // conversions between the two types (every LutN from a Lut of every size, dense tables): whatever they
            // return is a value obtained through the public API
            c10_all_conv(c);
        }
        "C03" => {
            for n in 0..=14 {
                c03::<Lut>(c, n);
            }
            for_static!(c, c03, 0..=12usize);
            cross_arity(c, 1);
        }
        "C04" | "C05" => {
            for n in 0..=8 {
                c04::<Lut>(c, n);
            }
            for_static!(c, c04, 0..=8usize);
            canon_sequences(c);
            cross_arity(c, 4);
        }
        "C06" => {
            for n in 0..=12 {
                c06::<Lut>(c, n);
            }
            for_static!(c, c06, 0..=12usize);
            cross_arity(c, 6);
        }
        "C07" => {
            for n in 0..=11 {
                c07::<Lut>(c, n);
            }
            for_static!(c, c07, 0..=11usize);
            cross_arity(c, 7);
        }
        "C08" => {
            for n in 0..=12 {
                c08::<Lut>(c, n);
            }
            for_static!(c, c08, 0..=12usize);
            for n in 0..=(if thorough { 12 } else { 9 }) {
                c08_next_step(c, n);
            }
            c17_dyn_mismatch(c);
        }
        "C09" => {
            for n in 0..=12 {
                c09_print::<Lut>(c, n);
                c09_parse::<Lut>(c, n);
            }
            for n in 0..=12usize {
                with_static!(n, c09_print(&mut *c, n));
                with_static!(n, c09_parse(&mut *c, n));
            }
            cross_arity(c, 9);
        }
        "C10" => {
            for_static!(c, c10_static, 0..=12usize);
            c10_all_conv(c);
            c10_ints(c);
            // the same operations on both types with identical inputs (seeded identically per size)
            for n in 0..=12usize {
                let s = c.rng.0;
                c.rng = Rng(s);
                c03::<Lut>(c, n);
                c.rng = Rng(s);
                with_static!(n, c03(&mut *c, n));
                c.rng = Rng(s);
                c06::<Lut>(c, n);
                c.rng = Rng(s);
                with_static!(n, c06(&mut *c, n));
                c.rng = Rng(s);
                c11::<Lut>(c, n);
                c.rng = Rng(s);
                with_static!(n, c11(&mut *c, n));
                if n <= 8 {
                    // every syntactic form of the logical operators: identical operands on both types
                    c.rng = Rng(s);
                    c01::<Lut>(c, n);
                    c.rng = Rng(s);
                    with_static!(n, c01(&mut *c, n));
                }
                if n <= 9 {
                    // shared BDD size of lists of functions: identical lists on both types
                    c.rng = Rng(s);
                    c07::<Lut>(c, n);
                    c.rng = Rng(s);
                    with_static!(n, c07(&mut *c, n));
                }
                if n <= 9 {
                    // ordering, equality, hashing, the iterator: identical pairs on both types
                    c.rng = Rng(s);
                    c08::<Lut>(c, n);
                    c.rng = Rng(s);
                    with_static!(n, c08(&mut *c, n));
                }
                if n <= 5 {
                    c.rng = Rng(s);
                    c04::<Lut>(c, n);
                    c.rng = Rng(s);
                    with_static!(n, c04(&mut *c, n));
                }
                if n <= 8 {
                    // strings: identical functions on both types
                    c.rng = Rng(s);
                    c09_print::<Lut>(c, n);
                    c.rng = Rng(s);
                    with_static!(n, c09_print(&mut *c, n));
                }
                c.rng = Rng(s.wrapping_add(1));
            }
        }
        "C11" => {
            for n in 0..=14 {
                c11::<Lut>(c, n);
            }
            for_static!(c, c11, 0..=12usize);
        }
        "C12" => twolevel::c12(c),
        "C13" => twolevel::c13(c),
        "C14" => twolevel::c14(c),
        "C15" => twolevel::c15(c),
        "C16" => twolevel::c16(c),
        "C17" => {
            for n in 0..=8 {
                c17::<Lut>(c, n);
            }
            for_static!(c, c17, 0..=8usize);
            c17_dyn_mismatch(c);
            for n in 0..=9 {
                c08_next_step(c, n);
            }
            // constructors with a count argument: every k is valid
            for n in 0..=8 {
                c11::<Lut>(c, n);
            }
            for_static!(c, c11, 0..=8usize);
            // conversions: a table with a different number of variables is refused (Err), in both profiles
            c10_all_conv(c);
            // the parser takes arbitrary strings: every one is a valid argument (Ok or Err, never a panic, in both profiles)
            for n in 0..=4 {
                c09_parse::<Lut>(c, n);
            }
            for n in 0..=3usize {
                with_static!(n, c09_parse(&mut *c, n));
            }
        }
        #[cfg(feature = "mip")]
        "C18" => mip::c18(c),
        "C19" => {
            for n in 0..=12 {
                c19::<Lut>(c, n);
            }
            for_static!(c, c19, 0..=12usize);
            for n in 7..=9usize {
                c19_mixed::<Lut>(c, n);
                with_static!(n, c19_mixed(&mut *c, n));
            }
        }
        "tables" => const_tables(c),
        _ => {
            eprintln!("unknown property {}", prop);
            std::process::exit(2);
        }
    }
    ctx.out.flush().unwrap();
}
