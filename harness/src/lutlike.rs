//! A uniform view of `Lut` and `StaticLut<N, T>` so that every generator runs on both types.
use std::fmt::{Binary, Display, LowerHex};
use std::hash::Hash;
use volute::{DecompositionType, Lut, StaticLut};

pub trait L: Clone + PartialEq + Eq + Ord + Hash + Display + LowerHex + Binary + Sized + 'static {
    const TY: &'static str;
    fn nvars(&self) -> usize;
    fn mk(n: usize, blocks: &[u64]) -> Self;
    fn from_blocks_(n: usize, blocks: &[u64]) -> Self;
    fn one_(n: usize) -> Self;
    fn zero_(n: usize) -> Self;
    fn nth_var_(n: usize, v: usize) -> Self;
    fn parity_(n: usize) -> Self;
    fn majority_(n: usize) -> Self;
    fn threshold_(n: usize, k: usize) -> Self;
    fn equals_(n: usize, k: usize) -> Self;
    fn symmetric_(n: usize, c: usize) -> Self;
    fn default_(n: usize) -> Self;
    fn random_(n: usize) -> Self;
    fn from_hex_(n: usize, s: &str) -> Result<Self, ()>;
    fn from_cofactors_(c0: &Self, c1: &Self, i: usize) -> Self;
    fn bdd_(luts: &[Self]) -> usize;
    fn all_functions_(n: usize) -> Box<dyn Iterator<Item = Self>>;

    fn blocks_(&self) -> Vec<u64>;
    fn num_vars_(&self) -> usize;
    fn num_bits_(&self) -> usize;
    fn num_blocks_(&self) -> usize;
    fn value_(&self, m: usize) -> bool;
    fn get_bit_(&self, m: usize) -> bool;
    fn set_value_(&mut self, m: usize, v: bool);
    fn set_bit_(&mut self, m: usize);
    fn unset_bit_(&mut self, m: usize);
    fn flip_(&self, i: usize) -> Self;
    fn flip_inplace_(&mut self, i: usize);
    fn swap_(&self, i: usize, j: usize) -> Self;
    fn swap_inplace_(&mut self, i: usize, j: usize);
    fn swap_adjacent_(&mut self, i: usize) -> Self;
    fn swap_adjacent_inplace_(&mut self, i: usize);
    fn cofactors_(&self, i: usize) -> (Self, Self);
    fn p_canon_(&self) -> (Self, Vec<u8>);
    fn n_canon_(&self) -> (Self, u32);
    fn npn_canon_(&self) -> (Self, Vec<u8>, u32);
    fn top_decomposition_(&self, i: usize) -> DecompositionType;
    fn is_pos_unate_(&self, i: usize) -> bool;
    fn is_neg_unate_(&self, i: usize) -> bool;
    fn to_hex_(&self) -> String;
    fn to_bin_(&self) -> String;
    /// the same function after a conversion to the other type and back
    fn via_other_(&self) -> Self;
    /// `all_functions` on the CONCRETE iterator type (a boxed iterator forwards only `next`, `nth`, `size_hint`, `last`):
    /// after `k` calls of `next` (one more when `extra`), what is left, through `count` (0), `fold` (1), `last` (2),
    /// `for_each` (3) or `max` (4)
    fn iter_rest_(n: usize, k: usize, extra: bool, variant: usize) -> String;

    /// every syntactic form of NOT: (form name, result)
    fn not_forms(a: &Self) -> Vec<(&'static str, Box<dyn Fn(&Self) -> Self>)>;
    /// every syntactic form of AND / OR / XOR: (op, form name, closure)
    #[allow(clippy::type_complexity)]
    fn bin_forms() -> Vec<(&'static str, &'static str, Box<dyn Fn(&Self, &Self) -> Self>)>;
}

macro_rules! common_methods {
    () => {
        fn blocks_(&self) -> Vec<u64> {
            self.blocks().to_vec()
        }
        fn num_vars_(&self) -> usize {
            self.num_vars()
        }
        fn num_bits_(&self) -> usize {
            self.num_bits()
        }
        fn num_blocks_(&self) -> usize {
            self.num_blocks()
        }
        fn value_(&self, m: usize) -> bool {
            self.value(m)
        }
        fn get_bit_(&self, m: usize) -> bool {
            self.get_bit(m)
        }
        fn set_value_(&mut self, m: usize, v: bool) {
            self.set_value(m, v)
        }
        fn set_bit_(&mut self, m: usize) {
            self.set_bit(m)
        }
        fn unset_bit_(&mut self, m: usize) {
            self.unset_bit(m)
        }
        fn flip_(&self, i: usize) -> Self {
            self.flip(i)
        }
        fn flip_inplace_(&mut self, i: usize) {
            self.flip_inplace(i)
        }
        fn swap_(&self, i: usize, j: usize) -> Self {
            self.swap(i, j)
        }
        fn swap_inplace_(&mut self, i: usize, j: usize) {
            self.swap_inplace(i, j)
        }
        fn swap_adjacent_(&mut self, i: usize) -> Self {
            self.swap_adjacent(i)
        }
        fn swap_adjacent_inplace_(&mut self, i: usize) {
            self.swap_adjacent_inplace(i)
        }
        fn cofactors_(&self, i: usize) -> (Self, Self) {
            self.cofactors(i)
        }
        fn n_canon_(&self) -> (Self, u32) {
            self.n_canonization()
        }
        fn top_decomposition_(&self, i: usize) -> DecompositionType {
            self.top_decomposition(i)
        }
        fn is_pos_unate_(&self, i: usize) -> bool {
            self.is_pos_unate(i)
        }
        fn is_neg_unate_(&self, i: usize) -> bool {
            self.is_neg_unate(i)
        }
        fn to_hex_(&self) -> String {
            self.to_hex_string()
        }
        fn to_bin_(&self) -> String {
            self.to_bin_string()
        }
        fn from_cofactors_(c0: &Self, c1: &Self, i: usize) -> Self {
            Self::from_cofactors(c0, c1, i)
        }
        fn bdd_(luts: &[Self]) -> usize {
            Self::bdd_complexity(luts)
        }

        fn not_forms(_a: &Self) -> Vec<(&'static str, Box<dyn Fn(&Self) -> Self>)> {
            vec![
                ("method", Box::new(|a: &Self| a.not())),
                ("inplace", Box::new(|a: &Self| {
                    let mut x = a.clone();
                    x.not_inplace();
                    x
                })),
                ("trait_ref", Box::new(|a: &Self| !a)),
                ("trait_val", Box::new(|a: &Self| !(a.clone()))),
            ]
        }

        fn bin_forms() -> Vec<(&'static str, &'static str, Box<dyn Fn(&Self, &Self) -> Self>)> {
            vec![
                ("and", "method", Box::new(|a: &Self, b: &Self| a.and(b))),
                ("and", "inplace", Box::new(|a: &Self, b: &Self| {
                    let mut x = a.clone();
                    x.and_inplace(b);
                    x
                })),
                ("and", "val_val", Box::new(|a: &Self, b: &Self| a.clone() & b.clone())),
                ("and", "ref_val", Box::new(|a: &Self, b: &Self| a & b.clone())),
                ("and", "ref_ref", Box::new(|a: &Self, b: &Self| a & b)),
                ("and", "val_ref", Box::new(|a: &Self, b: &Self| a.clone() & b)),
                ("and", "assign_ref", Box::new(|a: &Self, b: &Self| {
                    let mut x = a.clone();
                    x &= b;
                    x
                })),
                ("and", "assign_val", Box::new(|a: &Self, b: &Self| {
                    let mut x = a.clone();
                    x &= b.clone();
                    x
                })),
                ("or", "method", Box::new(|a: &Self, b: &Self| a.or(b))),
                ("or", "inplace", Box::new(|a: &Self, b: &Self| {
                    let mut x = a.clone();
                    x.or_inplace(b);
                    x
                })),
                ("or", "val_val", Box::new(|a: &Self, b: &Self| a.clone() | b.clone())),
                ("or", "ref_val", Box::new(|a: &Self, b: &Self| a | b.clone())),
                ("or", "ref_ref", Box::new(|a: &Self, b: &Self| a | b)),
                ("or", "val_ref", Box::new(|a: &Self, b: &Self| a.clone() | b)),
                ("or", "assign_ref", Box::new(|a: &Self, b: &Self| {
                    let mut x = a.clone();
                    x |= b;
                    x
                })),
                ("or", "assign_val", Box::new(|a: &Self, b: &Self| {
                    let mut x = a.clone();
                    x |= b.clone();
                    x
                })),
                ("xor", "method", Box::new(|a: &Self, b: &Self| a.xor(b))),
                ("xor", "inplace", Box::new(|a: &Self, b: &Self| {
                    let mut x = a.clone();
                    x.xor_inplace(b);
                    x
                })),
                ("xor", "val_val", Box::new(|a: &Self, b: &Self| a.clone() ^ b.clone())),
                ("xor", "ref_val", Box::new(|a: &Self, b: &Self| a ^ b.clone())),
                ("xor", "ref_ref", Box::new(|a: &Self, b: &Self| a ^ b)),
                ("xor", "val_ref", Box::new(|a: &Self, b: &Self| a.clone() ^ b)),
                ("xor", "assign_ref", Box::new(|a: &Self, b: &Self| {
                    let mut x = a.clone();
                    x ^= b;
                    x
                })),
                ("xor", "assign_val", Box::new(|a: &Self, b: &Self| {
                    let mut x = a.clone();
                    x ^= b.clone();
                    x
                })),
            ]
        }
    };
}

impl L for Lut {
    const TY: &'static str = "D";
    fn nvars(&self) -> usize {
        self.num_vars()
    }
    fn mk(n: usize, blocks: &[u64]) -> Self {
        Lut::from_blocks(n, blocks)
    }
    fn from_blocks_(n: usize, blocks: &[u64]) -> Self {
        Lut::from_blocks(n, blocks)
    }
    fn one_(n: usize) -> Self {
        Lut::one(n)
    }
    fn zero_(n: usize) -> Self {
        Lut::zero(n)
    }
    fn nth_var_(n: usize, v: usize) -> Self {
        Lut::nth_var(n, v)
    }
    fn parity_(n: usize) -> Self {
        Lut::parity(n)
    }
    fn majority_(n: usize) -> Self {
        Lut::majority(n)
    }
    fn threshold_(n: usize, k: usize) -> Self {
        Lut::threshold(n, k)
    }
    fn equals_(n: usize, k: usize) -> Self {
        Lut::equals(n, k)
    }
    fn symmetric_(n: usize, c: usize) -> Self {
        Lut::symmetric(n, c)
    }
    fn default_(_n: usize) -> Self {
        Lut::default()
    }
    fn random_(n: usize) -> Self {
        Lut::random(n)
    }
    fn from_hex_(n: usize, s: &str) -> Result<Self, ()> {
        Lut::from_hex_string(n, s)
    }
    fn all_functions_(n: usize) -> Box<dyn Iterator<Item = Self>> {
        Box::new(Lut::all_functions(n))
    }
    fn p_canon_(&self) -> (Self, Vec<u8>) {
        self.p_canonization()
    }
    fn npn_canon_(&self) -> (Self, Vec<u8>, u32) {
        self.npn_canonization()
    }
    fn via_other_(&self) -> Self {
        macro_rules! via {
            ($t:ty) => {
                Lut::from(<$t>::try_from(self.clone()).unwrap())
            };
        }
        match self.num_vars() {
            0 => via!(volute::Lut0),
            1 => via!(volute::Lut1),
            2 => via!(volute::Lut2),
            3 => via!(volute::Lut3),
            4 => via!(volute::Lut4),
            5 => via!(volute::Lut5),
            6 => via!(volute::Lut6),
            7 => via!(volute::Lut7),
            8 => via!(volute::Lut8),
            9 => via!(volute::Lut9),
            10 => via!(volute::Lut10),
            11 => via!(volute::Lut11),
            12 => via!(volute::Lut12),
            _ => self.clone(),
        }
    }
    fn iter_rest_(n: usize, k: usize, extra: bool, variant: usize) -> String {
        let _ = n;
        let mut it = Lut::all_functions(n);
        for _ in 0..k {
            it.next();
        }
        if extra {
            it.next();
        }
        let show = |l: Option<Self>| match l {
            Some(l) => format!("{}:{}", l.nvars(), l.blocks_().iter().map(|x| format!("{:x}", x)).collect::<Vec<_>>().join(".")),
            None => "none".to_string(),
        };
        match variant {
            0 => format!("count:{}", it.count()),
            1 => format!("fold:{}", it.fold(0usize, |acc, _| acc + 1)),
            2 => format!("last:{}", show(it.last())),
            3 => {
                let mut cnt = 0usize;
                it.for_each(|_| cnt += 1);
                format!("count:{}", cnt)
            }
            _ => format!("last:{}", show(it.max())),
        }
    }
    common_methods!();
}

impl<const N: usize, const T: usize> L for StaticLut<N, T> {
    const TY: &'static str = "S";
    fn nvars(&self) -> usize {
        N
    }
    fn mk(_n: usize, blocks: &[u64]) -> Self {
        StaticLut::<N, T>::from_blocks(blocks)
    }
    fn from_blocks_(_n: usize, blocks: &[u64]) -> Self {
        StaticLut::<N, T>::from_blocks(blocks)
    }
    fn one_(_n: usize) -> Self {
        Self::one()
    }
    fn zero_(_n: usize) -> Self {
        Self::zero()
    }
    fn nth_var_(_n: usize, v: usize) -> Self {
        Self::nth_var(v)
    }
    fn parity_(_n: usize) -> Self {
        Self::parity()
    }
    fn majority_(_n: usize) -> Self {
        Self::majority()
    }
    fn threshold_(_n: usize, k: usize) -> Self {
        Self::threshold(k)
    }
    fn equals_(_n: usize, k: usize) -> Self {
        Self::equals(k)
    }
    fn symmetric_(_n: usize, c: usize) -> Self {
        Self::symmetric(c)
    }
    fn default_(_n: usize) -> Self {
        Self::default()
    }
    fn random_(_n: usize) -> Self {
        Self::random()
    }
    fn from_hex_(_n: usize, s: &str) -> Result<Self, ()> {
        Self::from_hex_string(s)
    }
    fn all_functions_(_n: usize) -> Box<dyn Iterator<Item = Self>> {
        Box::new(Self::all_functions())
    }
    fn p_canon_(&self) -> (Self, Vec<u8>) {
        let (l, p) = self.p_canonization();
        (l, p.to_vec())
    }
    fn npn_canon_(&self) -> (Self, Vec<u8>, u32) {
        let (l, p, m) = self.npn_canonization();
        (l, p.to_vec(), m)
    }
    fn via_other_(&self) -> Self {
        Self::try_from(Lut::from(*self)).unwrap()
    }
    fn iter_rest_(n: usize, k: usize, extra: bool, variant: usize) -> String {
        let _ = n;
        let mut it = Self::all_functions();
        for _ in 0..k {
            it.next();
        }
        if extra {
            it.next();
        }
        let show = |l: Option<Self>| match l {
            Some(l) => format!("{}:{}", l.nvars(), l.blocks_().iter().map(|x| format!("{:x}", x)).collect::<Vec<_>>().join(".")),
            None => "none".to_string(),
        };
        match variant {
            0 => format!("count:{}", it.count()),
            1 => format!("fold:{}", it.fold(0usize, |acc, _| acc + 1)),
            2 => format!("last:{}", show(it.last())),
            3 => {
                let mut cnt = 0usize;
                it.for_each(|_| cnt += 1);
                format!("count:{}", cnt)
            }
            _ => format!("last:{}", show(it.max())),
        }
    }
    common_methods!();
}

/// run `$body` with `$X` bound to the LutN type for `$n` (0..=12)
#[macro_export]
macro_rules! with_static {
    ($n:expr, $f:ident ( $($args:expr),* )) => {
        match $n {
            0 => $f::<volute::Lut0>($($args),*),
            1 => $f::<volute::Lut1>($($args),*),
            2 => $f::<volute::Lut2>($($args),*),
            3 => $f::<volute::Lut3>($($args),*),
            4 => $f::<volute::Lut4>($($args),*),
            5 => $f::<volute::Lut5>($($args),*),
            6 => $f::<volute::Lut6>($($args),*),
            7 => $f::<volute::Lut7>($($args),*),
            8 => $f::<volute::Lut8>($($args),*),
            9 => $f::<volute::Lut9>($($args),*),
            10 => $f::<volute::Lut10>($($args),*),
            11 => $f::<volute::Lut11>($($args),*),
            12 => $f::<volute::Lut12>($($args),*),
            _ => panic!("no LutN alias for this size"),
        }
    };
}
