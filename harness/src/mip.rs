//! C18: the MIP two-level optimizers, end to end with the real solver (feature `mip` = volute/optim-mip).
//!
//! For every generated list of functions and cost triple:
//!   * `mipopt_*` lines: the forms returned by `optimize_*_mip`, together with a WITNESS computed here by exact
//!     optimisers that share nothing with volute (own cube representation, own evaluation, dynamic programming /
//!     shortest paths / enumeration of shared term sets).  The witness is untrusted: the driver re-checks with functions
//!     extracted from Coq that the returned forms are valid and that a valid witness is not cheaper.
//!   * `mipprog_*` lines: the 0-1 programme the Rust code actually handed to the solver in that very call (hook
//!     `volute::verif::mip`), which the driver compares with the programme of the Coq model, constraint by constraint.
use crate::{call, fl, Ctx};
use volute::sop::optim::{optimize_esop_mip, optimize_sop_mip, optimize_sopes_mip};
use volute::Lut;

use crate::twolevel::{fecubes, fcubes};

// ------------------------------------------------------------------------------------------ own term representation
#[derive(Clone, Copy, PartialEq, Eq, Debug)]
pub enum Term {
    Cube(u32, u32),  // pos, neg
    Ecube(u32, bool), // vars, xnor
}
impl Term {
    fn value(&self, m: u32) -> bool {
        match *self {
            Term::Cube(p, q) => (m & p) == p && (m & q) == 0,
            Term::Ecube(v, x) => ((m & v).count_ones() % 2 == 1) != x,
        }
    }
    fn lits(&self) -> i64 {
        match *self {
            Term::Cube(p, q) => (p.count_ones() + q.count_ones()) as i64,
            Term::Ecube(v, _) => v.count_ones() as i64,
        }
    }
    fn gates(&self) -> i64 {
        std::cmp::max(self.lits(), 1) - 1
    }
    fn table(&self, n: usize) -> u32 {
        let mut t = 0u32;
        for m in 0..(1u32 << n) {
            if self.value(m) {
                t |= 1 << m;
            }
        }
        t
    }
    fn fmt(&self) -> String {
        match *self {
            Term::Cube(p, q) => format!("{:x}/{:x}", p, q),
            Term::Ecube(v, x) => format!("{:x}/{}", v, if x { 1 } else { 0 }),
        }
    }
}

fn all_cubes(n: usize) -> Vec<Term> {
    let mut v = Vec::new();
    for p in 0..(1u32 << n) {
        for q in 0..(1u32 << n) {
            if p & q == 0 {
                v.push(Term::Cube(p, q));
            }
        }
    }
    v
}
/// every exclusive cube except the constant zero (0, false), which can never help
fn all_ecubes(n: usize) -> Vec<Term> {
    let mut v = Vec::new();
    for s in 0..(1u32 << n) {
        for x in [false, true] {
            if s != 0 || x {
                v.push(Term::Ecube(s, x));
            }
        }
    }
    v
}

#[derive(Clone, Copy, PartialEq)]
pub enum Mode {
    Sop,
    Sopes,
    Esop,
}

struct Costs {
    and: i64,
    xor: i64,
    or: i64,
}
impl Costs {
    fn term(&self, mode: Mode, t: &Term) -> i64 {
        match (mode, t) {
            (_, Term::Cube(..)) => self.and * t.gates(),
            (_, Term::Ecube(..)) => self.xor * t.gates(),
        }
    }
    /// cost of one extra term in an output
    fn join(&self, mode: Mode) -> i64 {
        match mode {
            Mode::Esop => self.xor,
            _ => self.or,
        }
    }
}

fn candidates(mode: Mode, n: usize) -> Vec<Term> {
    let mut c = all_cubes(n);
    if mode == Mode::Sopes {
        c.extend(all_ecubes(n));
    }
    c
}

/// exact single-output optimum by shortest path over 2^(2^n) states (n <= 4): state = function built so far
/// (OR of implicants for Sop/Sopes, XOR of cubes for Esop)
fn single_exact(mode: Mode, n: usize, f: u32, k: &Costs) -> (i64, Vec<Term>) {
    let bits = 1usize << n;
    let states = 1usize << bits;
    let cands: Vec<(Term, u32, i64)> = candidates(mode, n)
        .into_iter()
        .map(|t| (t, t.table(n), k.term(mode, &t) + k.join(mode)))
        .filter(|(_, tt, _)| mode == Mode::Esop || (tt & !f) == 0)
        .collect();
    let inf = i64::MAX / 4;
    let mut dist = vec![inf; states];
    let mut from: Vec<(u32, usize)> = vec![(0, usize::MAX); states];
    let mut done = vec![false; states];
    dist[0] = 0;
    // Dijkstra with a simple binary heap
    let mut heap = std::collections::BinaryHeap::new();
    heap.push((std::cmp::Reverse(0i64), 0u32));
    while let Some((std::cmp::Reverse(d), s)) = heap.pop() {
        if done[s as usize] {
            continue;
        }
        done[s as usize] = true;
        if s == f {
            break;
        }
        for (ci, (_, tt, c)) in cands.iter().enumerate() {
            let s2 = if mode == Mode::Esop { s ^ tt } else { s | tt };
            if s2 == s {
                continue;
            }
            let d2 = d + c;
            if d2 < dist[s2 as usize] {
                dist[s2 as usize] = d2;
                from[s2 as usize] = (s, ci);
                heap.push((std::cmp::Reverse(d2), s2));
            }
        }
    }
    let mut terms = Vec::new();
    let mut s = f;
    while s != 0 {
        let (p, ci) = from[s as usize];
        terms.push(cands[ci].0);
        s = p;
    }
    terms.reverse();
    let cost = if f == 0 { 0 } else { dist[f as usize] - k.join(mode) };
    (cost, terms)
}

/// exact multi-output optimum with sharing for n <= 2: enumerate the set S of distinct terms paid for; every output
/// then uses a minimum-cardinality sub-list of S that denotes it
fn multi_exact_small(mode: Mode, n: usize, fs: &[u32], k: &Costs) -> (i64, Vec<Vec<Term>>) {
    let bits = 1usize << n;
    let nstates = 1usize << bits;
    let cands: Vec<(Term, u32)> = candidates(mode, n)
        .into_iter()
        .map(|t| (t, t.table(n)))
        .filter(|(_, tt)| mode == Mode::Esop || fs.iter().any(|f| (tt & !f) == 0))
        .collect();
    let nc = cands.len();
    assert!(nc <= 20);
    let mut best = i64::MAX;
    let mut best_sol: Vec<Vec<Term>> = Vec::new();
    for s in 0u32..(1u32 << nc) {
        let mut base = 0i64;
        for (i, (t, _)) in cands.iter().enumerate() {
            if s >> i & 1 == 1 {
                base += k.term(mode, t);
            }
        }
        if base >= best {
            continue;
        }
        let mut total = base;
        let mut sol = Vec::new();
        let mut ok = true;
        for &f in fs {
            // fewest terms of S (implicants of f for OR forms) reaching f: BFS over states
            let mut dist = vec![u32::MAX; nstates];
            let mut from = vec![(0u32, usize::MAX); nstates];
            let mut queue = std::collections::VecDeque::new();
            dist[0] = 0;
            queue.push_back(0u32);
            while let Some(st) = queue.pop_front() {
                if st == f {
                    break;
                }
                for (i, (_, tt)) in cands.iter().enumerate() {
                    if s >> i & 1 == 0 {
                        continue;
                    }
                    if mode != Mode::Esop && (tt & !f) != 0 {
                        continue;
                    }
                    let s2 = if mode == Mode::Esop { st ^ tt } else { st | tt };
                    if dist[s2 as usize] == u32::MAX {
                        dist[s2 as usize] = dist[st as usize] + 1;
                        from[s2 as usize] = (st, i);
                        queue.push_back(s2);
                    }
                }
            }
            if dist[f as usize] == u32::MAX {
                ok = false;
                break;
            }
            let cnt = dist[f as usize] as i64;
            total += k.join(mode) * std::cmp::max(cnt - 1, 0);
            let mut terms = Vec::new();
            let mut st = f;
            while st != 0 {
                let (p, i) = from[st as usize];
                terms.push(cands[i].0);
                st = p;
            }
            sol.push(terms);
        }
        if ok && total < best {
            best = total;
            best_sol = sol;
        }
    }
    (best, best_sol)
}


/// exact multi-output optimum with sharing for OR forms when every output has few implicants: enumerate, per output,
/// every sub-list of its implicants that denotes it, then the product of these choices
fn multi_exact_product(mode: Mode, n: usize, fs: &[u32], k: &Costs) -> Option<(i64, Vec<Vec<Term>>)> {
    if mode == Mode::Esop {
        return None;
    }
    let cands: Vec<(Term, u32)> = candidates(mode, n).into_iter().map(|t| (t, t.table(n))).collect();
    let mut covers: Vec<Vec<Vec<usize>>> = Vec::new();
    let mut product: u64 = 1;
    for &f in fs {
        let imp: Vec<usize> = (0..cands.len()).filter(|&i| cands[i].1 != 0 && (cands[i].1 & !f) == 0).collect();
        if imp.len() > 12 {
            return None;
        }
        let mut cs = Vec::new();
        for s in 0u32..(1u32 << imp.len()) {
            let mut t = 0u32;
            let mut sel = Vec::new();
            for (b, &i) in imp.iter().enumerate() {
                if s >> b & 1 == 1 {
                    t |= cands[i].1;
                    sel.push(i);
                }
            }
            if t == f {
                cs.push(sel);
            }
        }
        product = product.saturating_mul(cs.len() as u64);
        covers.push(cs);
    }
    if product > 3_000_000 {
        return None;
    }
    let mut best = i64::MAX;
    let mut best_choice: Vec<usize> = Vec::new();
    let mut idx = vec![0usize; fs.len()];
    loop {
        let mut used = vec![false; cands.len()];
        let mut total = 0i64;
        for (j, &c) in idx.iter().enumerate() {
            let sel = &covers[j][c];
            total += k.join(mode) * std::cmp::max(sel.len() as i64 - 1, 0);
            for &i in sel {
                if !used[i] {
                    used[i] = true;
                    total += k.term(mode, &cands[i].0);
                }
            }
        }
        if total < best {
            best = total;
            best_choice = idx.clone();
        }
        let mut j = 0;
        loop {
            if j == idx.len() {
                let sol = best_choice.iter().enumerate().map(|(j, &c)| covers[j][c].iter().map(|&i| cands[i].0).collect()).collect();
                return Some((best, sol));
            }
            idx[j] += 1;
            if idx[j] < covers[j].len() {
                break;
            }
            idx[j] = 0;
            j += 1;
        }
    }
}

fn fwitness(mode: Mode, sol: &[Vec<Term>]) -> String {
    let one = |ts: &Vec<Term>| -> String {
        let cs: Vec<String> = ts.iter().filter(|t| matches!(t, Term::Cube(..))).map(|t| t.fmt()).collect();
        let es: Vec<String> = ts.iter().filter(|t| matches!(t, Term::Ecube(..))).map(|t| t.fmt()).collect();
        let j = |v: Vec<String>| if v.is_empty() { "-".to_string() } else { v.join(";") };
        if mode == Mode::Sopes {
            format!("{}&{}", j(cs), j(es))
        } else {
            j(cs)
        }
    };
    if sol.is_empty() {
        "empty".to_string()
    } else {
        sol.iter().map(one).collect::<Vec<_>>().join("|")
    }
}

fn lut_of(n: usize, f: u32) -> Lut {
    Lut::from_blocks(n, &[f as u64])
}

#[cfg(volute_verif)]
fn take_program() -> Option<String> {
    volute::verif::mip::take()
}
#[cfg(not(volute_verif))]
fn take_program() -> Option<String> {
    None
}

fn one_case(c: &mut Ctx, mode: Mode, n: usize, fs: &[u32], and: i32, xor: i32, or: i32) {
    let k = Costs { and: and as i64, xor: xor as i64, or: or as i64 };
    let luts: Vec<Lut> = fs.iter().map(|f| lut_of(n, *f)).collect();
    let flist = if luts.is_empty() { "-".to_string() } else { luts.iter().map(|l| fl(l)).collect::<Vec<_>>().join(";") };
    // witness: exact with sharing for n <= 2; exact for a single output; otherwise the independent optima (an upper bound)
    let (wkind, wsol) = if fs.is_empty() {
        ("exact", Vec::new())
    } else if n <= 2 && (mode != Mode::Sopes || fs.len() <= 2) {
        ("exact", multi_exact_small(mode, n, fs, &k).1)
    } else if fs.len() == 1 {
        ("exact", vec![single_exact(mode, n, fs[0], &k).1])
    } else if let Some((_, sol)) = multi_exact_product(mode, n, fs, &k) {
        ("exact", sol)
    } else {
        ("upper", fs.iter().map(|f| single_exact(mode, n, *f, &k).1).collect())
    };
    let w = fwitness(mode, &wsol);
    let _ = take_program();
    match mode {
        Mode::Sop => {
            let r = call(|| optimize_sop_mip(&luts, and, or));
            let args = [flist.clone(), and.to_string(), or.to_string(), wkind.to_string(), w];
            c.emit("mipopt_sop", "D", &args, r.map(|v| {
                if v.is_empty() { "empty".to_string() } else {
                    v.iter().map(|s| format!("{}:{}", s.num_vars(), fcubes(s.cubes()))).collect::<Vec<_>>().join("|") }
            }));
            if let Some(p) = take_program() {
                c.emit("mipprog_sop", "D", &[flist, and.to_string(), or.to_string()], Some(p));
            }
        }
        Mode::Sopes => {
            let r = call(|| optimize_sopes_mip(&luts, and, xor, or));
            let args = [flist.clone(), and.to_string(), xor.to_string(), or.to_string(), wkind.to_string(), w];
            c.emit("mipopt_sopes", "D", &args, r.map(|v| {
                if v.is_empty() { "empty".to_string() } else {
                    v.iter().map(|(s, o)| format!("{}:{}&{}", s.num_vars(), fcubes(s.cubes()), fecubes(o.cubes())))
                        .collect::<Vec<_>>().join("|") }
            }));
            if let Some(p) = take_program() {
                c.emit("mipprog_sopes", "D", &[flist, and.to_string(), xor.to_string(), or.to_string()], Some(p));
            }
        }
        Mode::Esop => {
            let r = call(|| optimize_esop_mip(&luts, and, xor));
            let args = [flist.clone(), and.to_string(), xor.to_string(), wkind.to_string(), w];
            c.emit("mipopt_esop", "D", &args, r.map(|v| {
                if v.is_empty() { "empty".to_string() } else {
                    v.iter().map(|s| format!("{}:{}", s.num_vars(), fcubes(s.cubes()))).collect::<Vec<_>>().join("|") }
            }));
            if let Some(p) = take_program() {
                c.emit("mipprog_esop", "D", &[flist, and.to_string(), xor.to_string()], Some(p));
            }
        }
    }
}

/// the 27 cost triples of {1,2,3}^3 in turn (a counter, not a random draw: every triple comes round every 27 cases)
fn cost_triple(c: &mut Ctx) -> (i32, i32, i32) {
    let k = (c.id as usize / 2 + c.rng.below(2) * 13) % 27;
    (1 + (k % 3) as i32, 1 + ((k / 3) % 3) as i32, 1 + (k / 9) as i32)
}

pub fn c18(c: &mut Ctx) {
    let modes = [Mode::Sop, Mode::Sopes, Mode::Esop];
    let thorough = c.thorough;
    // n = 0..=2: all lists of 1..2 functions (quick: all single functions, all pairs for n <= 1, sampled pairs for n = 2)
    for n in 0..=2usize {
        let nf = 1u32 << (1 << n);
        for f in 0..nf {
            for &mode in &modes {
                one_case(c, mode, n, &[f], 1, 1, 1);
                let (a, x, o) = cost_triple(c);
                one_case(c, mode, n, &[f], a, x, o);
                if thorough && n <= 1 {
                    for a in 1..=3 {
                        for x in 1..=3 {
                            for o in 1..=3 {
                                one_case(c, mode, n, &[f], a, x, o);
                            }
                        }
                    }
                }
            }
        }
        for f in 0..nf {
            for g in 0..nf {
                let take = n <= 1 || thorough || c.rng.below(8) == 0;
                if !take {
                    continue;
                }
                for &mode in &modes {
                    let (a, x, o) = if c.rng.coin() { (1, 1, 1) } else { cost_triple(c) };
                    one_case(c, mode, n, &[f, g], a, x, o);
                }
            }
        }
        // three outputs, sampled
        for _ in 0..(if thorough { 40 } else { 6 }) {
            let fs = [c.rng.below(nf as usize) as u32, c.rng.below(nf as usize) as u32, c.rng.below(nf as usize) as u32];
            let (a, x, o) = cost_triple(c);
            one_case(c, Mode::Sop, n, &fs, a, x, o);
            one_case(c, Mode::Esop, n, &fs, a, x, o);
        }
    }
    // (the empty list is outside the property's quantifier - lists of 1..3 functions; HiGHS rejects the empty model
    //  of optimize_sop_mip(&[]) with ModelEmpty, which the code unwraps)
    // n = 3, 4: three outputs sharing a minterm m, each output a chain {m, m^a, m^a^b} in a different direction: the
    // cheapest shared cube is then not prime for any single output (exact optimum by product of covers)
    for _ in 0..(if thorough { 40 } else { 8 }) {
        let n = 3 + c.rng.below(2);
        let m = c.rng.below(1 << n) as u32;
        let mut dirs: Vec<u32> = (0..n as u32).collect();
        for i in (1..dirs.len()).rev() {
            let j = c.rng.below(i + 1);
            dirs.swap(i, j);
        }
        let fs: Vec<u32> = (0..3)
            .map(|j| {
                let a = 1u32 << dirs[j];
                let mut b = 1u32 << dirs[c.rng.below(n)];
                if b == a {
                    b = 1u32 << dirs[(j + 1) % n];
                }
                (1u32 << m) | (1u32 << (m ^ a)) | (1u32 << (m ^ a ^ b))
            })
            .collect();
        let (a, x, o) = if c.rng.coin() { (1, 1, 1) } else { cost_triple(c) };
        one_case(c, Mode::Sop, n, &fs, a, x, o);
        if c.rng.below(3) == 0 {
            one_case(c, Mode::Sopes, n, &fs, a, x, o);
        }
    }
    // n = 3: all single functions (quick: every 5th plus structured ones)
    for f in 0..256u32 {
        let structured = [0x00, 0xff, 0xaa, 0xcc, 0xf0, 0x96, 0x69, 0xe8, 0x17, 0x80, 0x01, 0xfe, 0x7f, 0x88, 0xca, 0x3c].contains(&f);
        if !(thorough || structured || f % 5 == 0) {
            continue;
        }
        for &mode in &modes {
            let (a, x, o) = if f % 2 == 0 { (1, 1, 1) } else { cost_triple(c) };
            one_case(c, mode, 3, &[f], a, x, o);
        }
    }
    // parity-like functions (an exclusive cube over 2 or 3 variables is the cheap form) under every cost triple
    for f in [0x96u32, 0x69, 0x3c, 0x5a, 0x66, 0x99, 0x7e, 0x81, 0x16, 0x68] {
        for a in 1..=3 {
            for x in 1..=3 {
                for o in 1..=3 {
                    if thorough || (a + x + o) % 2 == 1 || (a, x, o) == (1, 3, 1) || (a, x, o) == (1, 1, 1) {
                        one_case(c, Mode::Sopes, 3, &[f], a, x, o);
                    }
                }
            }
        }
    }
    for (f, g) in [(0x96u32, 0x80u32), (0x69, 0x01), (0x6, 0x8)] {
        let n = if f > 0xf { 3 } else { 2 };
        for (a, x, o) in [(1, 3, 1), (1, 1, 1), (2, 3, 1), (1, 2, 1), (1, 3, 2)] {
            one_case(c, Mode::Sopes, n, &[f, g], a, x, o);
        }
    }
    // random lists up to n = 4 with 1..3 outputs
    for _ in 0..(if thorough { 60 } else { 8 }) {
        let n = 3 + c.rng.below(2);
        let k = 1 + c.rng.below(3);
        let mask = if n == 4 { 0xffffu32 } else { 0xffu32 };
        let fs: Vec<u32> = (0..k).map(|_| (c.rng.next() as u32) & mask).collect();
        let (a, x, o) = cost_triple(c);
        for &mode in &modes {
            if mode == Mode::Esop && n == 4 && k > 1 && !thorough {
                continue;
            }
            one_case(c, mode, n, &fs, a, x, o);
        }
    }
}
