#!/bin/bash
# usage: showgoal.sh File.v LINE [nlines] -- prints the goal just before LINE (run from the coq directory)
f=$1; n=$2
head -n $((n-1)) $f > /tmp/_sg_$$.v
echo "Show. Abort." >> /tmp/_sg_$$.v
coqc -Q . V /tmp/_sg_$$.v 2>&1 | head -${3:-40}
rm -f /tmp/_sg_$$.v /tmp/_sg_$$.vo /tmp/_sg_$$.glob /tmp/._sg_$$.aux
