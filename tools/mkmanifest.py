#!/usr/bin/env python3
"""Regenerates MANIFEST.json from the table below (run by hand after a property gains or loses its theorems)."""
import json
import os

ROOT = os.path.dirname(os.path.dirname(os.path.abspath(__file__)))
props = [json.loads(l) for l in open(os.path.join(ROOT, "properties.jsonl"))]

NOTE = ("Theorems are about the Gallina mirror of the code (coq/Model), closed under the global context (no axioms; "
        "Print Assumptions is checked on every run). Tie to /repo on every run: constant tables, guard/callee lists and API "
        "surface are regenerated from the source by gen/gen.py, and the word-level expressions of the kernels (operations.rs, "
        "decomposition.rs, cube.rs, ecube.rs, bdd.rs, canonization.rs) by gen/gen_exprs.py and proved equal to the model's "
        "(Proofs/ExprsTie*.v) - a changed constant, operator, mask or shift breaks a Qed; loops, regime dispatch and the API "
        "wrappers are tied by differential replay of the real crate (dev and release profile, hooks on) on the model extracted "
        "from Coq, sharded over 14 processes. "
        "Trusted: Coq kernel + vm_compute, the translator, ExtrOcamlBasic extraction, OCaml/Rust glue, the stated Rust semantics "
        "(DESIGN.md section 9).")

CLAIMS = {
    "C01": ("Pointwise semantics of the word-wise AND/OR/XOR/NOT kernels and of the API wrappers proved for every n and every "
            "pair of well-formed tables (tables symbolic, no enumeration); results proved well-formed; size guard proved "
            "PanicAlways. Every Rust syntactic form (methods, in-place, operator traits on values/references, compound "
            "assignment; Lut and all 13 LutN aliases) is tied to the single model function by the per-run transcript replay; on the "
            "API surface regenerated from the source: all 20 + 20 operator forms exist exactly once and each forwards to the kernel "
            "of its own operator and no other (C01_forms_complete, C01_operators_forward).",
            "section 6 C01"),
    "C02": ("Well-formedness (exactly max(1,2^n/64) blocks, no bit at a position >= 2^n) proved to be an inductive invariant of the "
            "WHOLE table-producing API: a call language with 37 constructors (all constructors, random over any generator stream, "
            "from_blocks, from_hex_string, integer and Lut<->LutN conversions, From<&Sop/&Esop/&Soes>, not/and/or/xor, flip, swap, "
            "swap_adjacent, both cofactors, from_cofactors, set/unset_bit, set_value, iterator items, the three canonizations), histories "
            "of any length and shape, every intermediate value (C02_intermediate), every n; on such values ==, Hash input and cmp = Equal "
            "proved equivalent to 'same number of variables and same value on every assignment', for Lut and LutN. Random call histories "
            "on the real crate (both types, both profiles) are replayed on the model on every run.", "section 6 C02"),
    "C04": ("For n <= 8 (the property's bound; it enters only through the kernel-checked coverage computation of the swap/flip "
            "sequences - generated tables for n <= 6, the Gallina mirror of the generators for n = 7, 8) and EVERY well-formed table "
            "(symbolic): p/n/npn_canonization return Ok (no panic), the representative is <= every table in the orbit (P: all "
            "permutations; N: all 2^(n+1) complementations; NPN: both) in the library's own order (cmp, = numeric order), it is itself "
            "in the orbit, canonizing it returns it unchanged, and two functions get the same representative iff they are equivalent "
            "under the group (group laws of the action proved for every n). Beyond the bound: the Gray-code flip walk and the "
            "Steinhaus-Johnson-Trotter swap walk are PROVED closed walks through the whole group for every n, so the same theorems "
            "hold for P at every n and for N / NPN at every n <= 31 (C04_*_general).", "section 6 C04"),
    "C05": ("For n <= 8 and every well-formed table: the returned (perm, mask) is a valid certificate - perm a permutation of 0..n, "
            "mask < 2^(n+1), and the returned table equals y |-> f(x) xor mask[n] with x[perm[i]] = y[i] xor mask[i] on every "
            "assignment; P uses mask 0, N the identity permutation; stated separately for already-canonical inputs (where the pinned "
            "code failed). Walk invariant proved for arbitrary valid closed sequences and every n; certificates also for P at every n "
            "and N / NPN at every n <= 31 (C05_*_general).", "section 6 C05"),
    "C03": ("flip, swap, swap_adjacent, cofactor0/1, from_cofactors proved exact at the level of the function value "
            "(val t' m = val t (flipbit/swapbits/clearbit/setbit m ..)) for EVERY n, every well-formed table and every index "
            "< n, in all storage regimes (in-word via masked-shift pieces checked by vm_compute on the generated VAR_MASK / "
            "SWAP_INPUT_MASKS with the word symbolic; cross-word via a generic sequential pair-loop lemma); no carry/overflow and "
            "no out-of-bounds index proved on the way; Shannon recomposition proved as table equality; API layer incl. guards.",
            "section 6 C03"),
    "C06": ("input_property_helper proved, generically in the bitwise predicate, to decide 'for all assignments, opb (c0 m) (c1 m)' "
            "for every n, every well-formed table and every variable (in-word regime through masked-shift pieces on the generated "
            "VAR_MASK, cross-word regime on word pairs); the eight predicates, the full priority chain of top_decomposition (each class "
            "iff its condition and the negation of all earlier ones), both unateness tests, classifiers, always-on guards.",
            "section 6 C06"),
    "C07": ("table_complexity proved equal, for every n and every list of well-formed tables, to bdd_nodes: the number of distinct "
            "complement-normalised sub-functions per level that depend on the level variable and are not a literal (the standard "
            "characterisation of the nodes of a shared ROBDD with complement edges); invariance under permutation, duplicates and "
            "complementation proved; API layer for Lut and LutN. A constructive shared ROBDD with complemented edges (mk + unique "
            "table, Shannon expansion from variable n-1; Spec/BddBuild.v) is proved canonical and to have exactly bdd_nodes "
            "non-literal nodes, hence = table_complexity (C07_build_count, C07_build_model).", "section 6 C07"),
    "C08": ("cmp proved to be numeric comparison of the table read as one 2^n-bit number (most significant bit = all-ones "
            "assignment); total order laws; extensionality (wf_ext); successor proved = +1 mod 2^(2^n) incl. carries through any "
            "number of all-ones words; the iterator proved to yield exactly the functions 0..2^(2^n)-1 in order, each once, by "
            "induction (no enumeration, all n); cmp proved equal to the lexicographic order of the fixed-width hex (and binary) "
            "strings, printing injective.", "section 6 C08"),
    "C09": ("to_hex/to_bin width, characters, per-digit and per-bit exactness; Display/LowerHex/Binary wrappers; from_hex_string "
            "total (never panics), accepts exactly the well-formed strings (length, hex digits, value fits), denotes the string, "
            "upper = lower case, round trip parse(print t) = t; rejects every string with a non-hex byte or a wrong length. All n.",
            "section 6 C09"),
    "C10": ("In the model every operation common to Lut and LutN is ONE Gallina function; the few LutN-specific functions "
            "(from_cofactors, cmp, from_blocks, bdd_complexity) are proved equal to the Lut ones on every operand pair the Rust "
            "types admit. LutN -> Lut -> LutN proved the identity, TryFrom proved to fail exactly when the variable counts differ, "
            "u8/u16/u32/u64 conversions of Lut3..Lut6 proved bit-exact bijections (bit m of the integer is f(m)); the 13 aliases are "
            "read from the source (generated) and proved to be StaticLut<N, table_size N>. Both Rust types are tied to the shared model "
            "function by paired transcript replay (identical inputs on both types, every alias N = 0..12); on the regenerated API "
            "surface: same 46 public methods, same signatures modulo num_vars, same kernels called in the same order, same trait "
            "impls, every public method mapped to its model function (C10_same_kernels, C10_every_public_method_modelled).",
            "section 6 C10"),
    "C17": ("(A) On the guard structure REGENERATED FROM THE SOURCE on every run (Gen/Guards.v): every parameter of every public method "
            "of impl Lut / impl StaticLut is classified by (name, type); every variable-index, assignment-index, second-table and "
            "block-slice parameter is proved guarded by an always-on check placed BEFORE the first profile-sensitive kernel call "
            "(directly, by forwarding to a guarded method of the same impl, or through a kernel that asserts in every profile); the three "
            "check_* helpers use assert!/assert_eq!, no wrapper uses debug_assert!; a pinned 50-row guard table; negative examples show "
            "the predicate fails when a check is removed, moved after the kernel call or demoted to debug_assert!. (B) On the model: for "
            "each of 21 index/table/slice-taking calls on well-formed operands, invalid argument => PanicAlways, valid => Ok, and NO call "
            "returns a debug-only panic (no reachable overflow, failing debug_assert or over-wide shift) - C17_profile_independent, "
            "C17_invalid_panics, C17_valid_ok, for all n. Both build profiles of the real crate are run on the out-of-range grid and on a "
            "valid workload on every run and compared with the model line by line.", "section 6 C17"),
    "C18": ("PARTIAL (proof of volute's own logic + hypothesis on the numerical solver). Proved for every list of well-formed "
            "functions over n <= 31 variables and all costs >= 1 (no i32 overflow), for optimize_sop_mip, optimize_esop_mip and "
            "optimize_sopes_mip: the 0-1 programme built by the modeler is ADEQUATE - every feasible point decodes to a valid "
            "two-level form whose cost (AND/XOR gates of the distinct cubes + one OR/XOR per extra cube per output) is at most the "
            "objective (decode_sound, no solver hypothesis), and every valid form has a feasible point of the same (SOPES: no greater) "
            "objective (encode_complete); whatever the solver returns, an Ok result denotes the functions (valid); and IF the solver "
            "returns an optimal feasible point of the one programme it is given (solver_optimal_on, shown satisfiable on concrete "
            "instances) THEN the call returns Ok and the returned forms have minimum cost over all valid forms. NOT provable: that "
            "HiGHS/good_lp meets that hypothesis (floating point, tolerances). Tie on every run: the programme the Rust code hands "
            "to the solver (hook) is compared constraint by constraint with the model's programme; the forms returned by the real "
            "solver are checked by extracted checkers for validity and against exact optima computed independently (shared-term "
            "enumeration n <= 2, shortest paths for single outputs up to n = 4, product of covers for sparse multi-output n = 3, 4).",
            "section 6 C18"),
    "C19": ("PARTIAL (proof of everything that is logic + statistical monitoring of the generator). Proved for an arbitrary generator "
            "output stream: the result is well formed, table bit m is exactly bit m mod 64 of generator word m / 64 (distinct assignments "
            "read distinct generator bits), masking is a uniform projection (bijection word <-> (kept bits, dropped bits)), every "
            "well-formed table is reachable, both-values and pairwise-distinctness transfer from the stream to the functions. NOT provable: "
            "quality and thread-locality of rand::thread_rng() - monitored per run (256 draws per size and thread, 1 and 16 threads, both "
            "types, both profiles): well-formedness, both values at every assignment, distinct draws, threads differ.", "section 6 C19"),
    "C11": ("zero/one/nth_var/symmetric/equals/threshold/parity/majority/default and get/set/unset bit proved against their "
            "popcount definitions for every n < 64, every k (incl. k >= 64 and usize::MAX), every count mask; COUNT_MASKS and "
            "VAR_MASK facts by vm_compute on the generated tables; guards proved PanicAlways.", "section 6 C11"),
    "C12": ("Cube value = literal semantics; AND = conjunction with canonical zero; equality, implies, intersects, implies_lut "
            "semantic on canonical cubes over 32 variables (symbolic masks); minterm, from_vars/from_mask, counts, enumeration "
            "complete and duplicate-free (3^n counted for n <= 6).", "section 6 C12"),
    "C13": ("Ecube value = parity of selected inputs xor xnor; ^ and ! exact; equality semantic; enumeration complete; Soes value, "
            "|, conversion to Lut (general tabulate lemma, all n), is_zero/is_one sound.", "section 6 C13"),
    "C14": ("Sop &, |, ! preserve meaning for arbitrary (overlapping, nested, duplicated) operand cube lists of any length; every "
            "result proved containment-irredundant (no zero cube, sorted, no duplicate, no cube implying another); is_zero exact on "
            "results, is_one sound; Lut -> Sop is the minterm cover and the round trip is the identity (n <= 32).", "section 6 C14"),
    "C15": ("Lut -> Esop proved to be the positive-polarity Reed-Muller form: all-positive cubes, strictly increasing, denotes the "
            "function (sweep invariant), unique such form, cube S present iff the ANF coefficient (xor of f over sub-assignments of S) "
            "is 1 (Moebius inversion proved), round trip identity; ^ and ! exact; is_zero/is_one sound. n <= 32.", "section 6 C15"),
    "C16": ("A reader for the evident grammar (lexer over bytes + evaluator with | loosest, then ^, then juxtaposition; Spec/Grammar.v) "
            "proved to evaluate the printed text of every Cube, Ecube, Sop, Esop, Soes with 32-bit masks to the object's own value on "
            "every assignment; literal indices strictly increasing; printing injective on canonical cubes and on ecubes. The printed "
            "bytes themselves are tied to the Rust Display impls by the byte-exact transcript replay.", "section 6 C16"),
}

hooks_commits = ["cd46dcb", "06c2400", "4f0c900"]
checks = []
for p in props:
    pid = p["id"]
    if pid not in CLAIMS:
        continue
    checks.append({
        "property_id": pid,
        "quick_cmd": "./check %s --tier quick" % pid,
        "thorough_cmd": "./check %s --tier thorough" % pid,
        "evidence_file": "evidence/%s.json" % pid,
        "replay_cmd_template": "./check %s --replay {path}" % pid,
        "engine": "coq-model",
        "level_claimed": {"category": "proof", "text": CLAIMS[pid][0], "design_ref": CLAIMS[pid][1]},
        "level_note": NOTE,
        "technique": "Coq proof over a Gallina model + extracted-model correspondence check",
    })
m = {
    "version": 1,
    "setup_cmd": "./setup.sh",
    "hooks": {"guard": "volute_verif",
              "enable": "RUSTFLAGS=\"--cfg volute_verif\" (cfg flag; src/verif.rs, one accessor at the end of canonization.rs, one recording call at the top of the two solve() functions of sop/optim/mip.rs)",
              "baseline_off_cmd": "cd /repo && cargo test --workspace --no-fail-fast --offline",
              "source_commits": hooks_commits, "add_only": True},
    "engines": [{"name": "coq-model", "path": "coq/", "serves_properties": sorted(CLAIMS),
                 "kind_free_text": "Coq 8.16 model + theorems (coq/), translator (gen/), extracted OCaml driver (driver/), Rust "
                                   "transcript harness (harness/), orchestrated by ./check"}],
    "checks": checks,
    "notes": "See DESIGN.md. known_findings.json lists the defects repaired by fix: commits in /repo (status fixed, suppressing nothing).",
    "not_applicable": [{"property_id": p["id"],
                        "reason": "not claimed yet: model and correspondence exist, theorems in progress (DESIGN.md section 12)"}
                       for p in props if p["id"] not in CLAIMS],
}
json.dump(m, open(os.path.join(ROOT, "MANIFEST.json"), "w"), indent=1)
print("claimed:", sorted(CLAIMS))
