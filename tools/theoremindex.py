#!/usr/bin/env python3
"""Prints a markdown index of the pinned theorems of coq/Properties/Cxx.v (DESIGN.md appendix D)."""
import glob
import os
import re

ROOT = os.path.dirname(os.path.dirname(os.path.abspath(__file__)))
for path in sorted(glob.glob(os.path.join(ROOT, "coq", "Properties", "C*.v"))):
    src = open(path).read()
    src = re.sub(r"\(\*.*?\*\)", "", src, flags=re.S)
    names = re.findall(r"^\s*Theorem\s+([A-Za-z0-9_']+)", src, flags=re.M)
    examples = re.findall(r"^\s*Example\s+([A-Za-z0-9_']+)", src, flags=re.M)
    prop = os.path.basename(path)[:-2]
    short = [n[len(prop) + 1:] if n.startswith(prop + "_") else n for n in names]
    print("* **%s** (%d theorems, %d non-vacuity examples): %s" % (prop, len(names), len(examples), ", ".join("`%s`" % s for s in short)))
