#!/usr/bin/env python3
"""Prints the markdown table of DESIGN.md section 13 from seeded/*/meta.json."""
import glob
import json
import os

ROOT = os.path.dirname(os.path.dirname(os.path.abspath(__file__)))
rows = []
for path in sorted(glob.glob(os.path.join(ROOT, "seeded", "*", "meta.json"))):
    m = json.load(open(path))
    if not m.get("valid_seed"):
        continue
    cells = []
    for p, c in m["checks"].items():
        if c["detected"]:
            cells.append("%s: **caught**, %s" % (p, "failing input" if c["concrete"] else "no-failing-input-found"))
        else:
            cells.append("%s: not reported" % p)
    rows.append("| `%s` | %s | %s |" % (m["seed"], m["needs"].replace("|", "\\|"), "; ".join(cells)))
print("| seeded change | needs, to manifest | `./check Cxx --tier quick` on the changed tree |")
print("|---|---|---|")
print("\n".join(rows))
