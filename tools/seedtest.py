#!/usr/bin/env python3
"""Confirm a seeded change and run the checks against it.

  tools/seedtest.py <seed-id> <patch.diff> <demo.rs> <needs-text> <Cxx> [<Cyy> ...]

1. in a scratch worktree of /repo (under /tmp, removed afterwards): the patch applies, the existing test-suite still
   passes with it, the demonstration fails with it and passes without it;
2. applies the patch to /repo, runs `./check Cxx --tier quick` for every listed property, undoes the patch
   (git -C /repo checkout -- .) whatever happens;
3. writes /verif/seeded/<seed-id>/{patch.diff, demo.rs, meta.json}.
"""
import json
import os
import re
import shutil
import subprocess
import sys
import time

ROOT = os.path.dirname(os.path.dirname(os.path.abspath(__file__)))
REPO = "/repo"


def sh(cmd, cwd=None, timeout=3600, env=None):
    e = dict(os.environ)
    e["CARGO_NET_OFFLINE"] = "true"
    if env:
        e.update(env)
    p = subprocess.run(["bash", "-c", "set -o pipefail; " + cmd], cwd=cwd, stdout=subprocess.PIPE, stderr=subprocess.STDOUT, timeout=timeout,
                       universal_newlines=True, errors="replace", env=e)
    return p.returncode, p.stdout


def main():
    sid, patch, demo, needs = sys.argv[1:5]
    props = sys.argv[5:]
    patch = os.path.abspath(patch)
    demo = os.path.abspath(demo)
    out = os.path.join(ROOT, "seeded", sid)
    os.makedirs(out, exist_ok=True)
    meta = {"seed": sid, "breaks": props, "needs": needs, "ran": [], "confirmed": {}, "checks": {}}
    wt = "/tmp/seedchk_%s_%d" % (sid, os.getpid())
    demo_name = "demo_seed"
    flags = os.environ.get("SEED_DEMO_FLAGS", "")   # e.g. --release, --features optim-mip
    meta["demo_flags"] = flags
    try:
        rc, o = sh("git -C %s worktree add --detach %s HEAD" % (REPO, wt))
        assert rc == 0, o
        os.makedirs(os.path.join(wt, "tests"), exist_ok=True)
        shutil.copy(demo, os.path.join(wt, "tests", demo_name + ".rs"))
        rc, o = sh("cargo test --offline %s --test %s 2>&1 | tail -15" % (flags, demo_name), cwd=wt)
        clean_ok = rc == 0 and "test result: ok" in o and "FAILED" not in o
        meta["confirmed"]["demo_passes_without_change"] = clean_ok
        meta["ran"].append("clean tree: cargo test --offline --test demo -> %s" % ("pass" if clean_ok else "FAIL"))
        rc, o = sh("git apply %s" % patch, cwd=wt)
        meta["confirmed"]["patch_applies"] = rc == 0
        os.remove(os.path.join(wt, "tests", demo_name + ".rs"))
        rc, o = sh("cargo test --offline %s --no-fail-fast 2>&1 | grep -E" % (flags if "features" in flags else "") + "  'test result|FAILED|error' | head", cwd=wt)
        suite_ok = "FAILED" not in o and "error" not in o and "test result: ok" in o
        m = re.search(r"test result: ok\. (\d+) passed", o)
        meta["confirmed"]["existing_suite_passes_with_change"] = suite_ok
        meta["confirmed"]["existing_suite_passed_count"] = int(m.group(1)) if m else None
        meta["ran"].append("with change: cargo test --offline --no-fail-fast -> %s" % o.strip().replace("\n", " | ")[:300])
        shutil.copy(demo, os.path.join(wt, "tests", demo_name + ".rs"))
        rc, o = sh("cargo test --offline %s --test %s 2>&1 | tail -15" % (flags, demo_name), cwd=wt)
        fails = rc != 0 and ("FAILED" in o or "panicked" in o or "error" in o)
        meta["confirmed"]["demo_fails_with_change"] = fails
        meta["ran"].append("with change: cargo test --offline --test demo -> %s" % ("FAIL (as required)" if fails else "pass (NOT a valid seed)"))
    finally:
        sh("git -C %s worktree remove --force %s" % (REPO, wt))
        shutil.rmtree(wt, ignore_errors=True)
    valid = all(meta["confirmed"].get(k) for k in ("demo_passes_without_change", "patch_applies",
                                                   "existing_suite_passes_with_change", "demo_fails_with_change"))
    meta["valid_seed"] = valid
    if valid:
        rc, o = sh("git -C %s status --porcelain" % REPO)
        assert o.strip() == "", "/repo is not clean: " + o
        # the evidence files of the unchanged tree must survive the experiment
        ev_backup = "/tmp/seed_evidence_%d" % os.getpid()
        shutil.rmtree(ev_backup, ignore_errors=True)
        shutil.copytree(os.path.join(ROOT, "evidence"), ev_backup)
        try:
            rc, o = sh("git -C %s apply %s" % (REPO, patch))
            assert rc == 0, o
            for p in props:
                t0 = time.time()
                rc, o = sh("./check %s --tier quick" % p, cwd=ROOT, timeout=7200)
                viol = [l for l in o.split("\n") if l.startswith("VIOLATION")]
                meta["checks"][p] = {"exit": rc, "violation_lines": viol, "wall_s": round(time.time() - t0, 1),
                                     "detected": rc == 1 and bool(viol),
                                     "concrete": any("no-failing-input-found" not in v for v in viol)}
                # keep the first replay file as an illustration
                for v in viol[:1]:
                    m = re.search(r"replay=(\S+)", v)
                    if m and os.path.exists(m.group(1)):
                        shutil.copy(m.group(1), os.path.join(out, "replay-%s.json" % p))
                meta["ran"].append("git -C /repo apply patch.diff; ./check %s --tier quick -> exit %d %s" % (p, rc, "; ".join(viol)[:300]))
        finally:
            sh("git -C %s checkout -- ." % REPO)
            shutil.rmtree(os.path.join(ROOT, "evidence"), ignore_errors=True)
            shutil.copytree(ev_backup, os.path.join(ROOT, "evidence"))
            shutil.rmtree(ev_backup, ignore_errors=True)
            # the generated Coq files go back to what the unchanged source says
            sh("python3 %s" % os.path.join(ROOT, "gen", "gen.py"))
    shutil.copy(patch, os.path.join(out, "patch.diff"))
    shutil.copy(demo, os.path.join(out, "demo.rs"))
    json.dump(meta, open(os.path.join(out, "meta.json"), "w"), indent=1)
    print(json.dumps({"seed": sid, "valid": valid, "checks": {p: (c["detected"], c["concrete"]) for p, c in meta["checks"].items()}}))


if __name__ == "__main__":
    main()
